#!/bin/sh
# usage: tools/sens.sh <patch.diff> <Cnn> [<Cnn> ...]   (VERIF_TIER=quick default)
# Applies the patch to a scratch copy of /repo (outside /repo and /verif), runs the
# repository's test suite and the named checks against it, then removes the copy.
patch="$1"; shift
d=$(mktemp -d /tmp/sens.XXXXXX)
cp -r /repo/sievelib "$d/sievelib"
( cd "$d" && patch -p1 -s < "$patch" ) || { echo "PATCH FAILED"; rm -rf "$d"; exit 2; }
( cd "$d" && /venv/bin/python -m pytest -q -p no:cacheprovider sievelib 2>&1 | tail -1 )
for p in "$@"; do
  VERIF_REPO="$d" VERIF_EVIDENCE_DIR="$d/evidence" VERIF_REPLAY_DIR="$d/replays" /verif/check "$p" --tier "${VERIF_TIER:-quick}" 2>&1 | grep -E "^(VIOLATION|KNOWN|HARNESS|  bucket|C[0-9]+ tier)" | cut -c1-200
  echo "exit=$?"
done
rm -rf "$d"
