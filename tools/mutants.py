#!/usr/bin/env python3
"""Hand-made breaking changes used to test the sensitivity of the checks
(DESIGN.md section 6).  Each is applied to a scratch copy of /repo/sievelib
(outside /repo and /verif), the repository's test suite and the named checks
are run against it, and the copy is removed.

usage: tools/mutants.py [name ...]      (no name: all)     env VERIF_TIER=quick|thorough
Writes sensitivity/results.json and prints a table."""
import json
import os
import shutil
import subprocess
import sys
import tempfile

ROOT = os.path.dirname(os.path.dirname(os.path.abspath(__file__)))

M = [
    # name, file, old, new, properties expected to notice
    ("parser-no-semicolon-expected", "parser.py", '''            if testsemicolon:
                self.__set_expected("semicolon")
            return True''', '''            return True''', ["C01"]),
    ("parser-bracket-kind-not-checked", "parser.py", '''        if ttype != etype:
            raise ParseError(''', '''        if False:
            raise ParseError(''', ["C01"]),
    ("commands-values-case-sensitive", "commands.py", '''        if "values" in arg and value.lower() in arg["values"]:''', '''        if "values" in arg and value in arg["values"]:''', ["C01"]),
    ("parser-must-follow-dropped", "parser.py", '''            if prevcmd is None or prevcmd.name not in self.__curcommand.must_follow:''', '''            if False:''', ["C01"]),
    ("lexer-number-quantifier", "parser.py", '''(b"number", rb"[0-9]+[KMGkmg]?"),''', '''(b"number", rb"[0-9]+[KMG]?"),''', ["C01"]),
    ("commands-surplus-accepted", "commands.py", '''        if pos >= len(self.args_definition):
            # no definition matched this argument
            return False''', '''        if pos >= len(self.args_definition):
            return True''', ["C01"]),
    ("parser-eof-check-dropped", "parser.py", '''            if self.__cstate is not None:
                raise ParseError(
                    "end of script reached while semicolon or block expected"
                )''', '''''', ["C01", "C03"]),
    ("parser-hasflag-rewind-unguarded", "parser.py", '''            if self.__curcommand.iscomplete():
                # rewind lexer: the token now belongs to the parent command
                self.lexer.pos -= 1
                return self.__check_command_completion(testsemicolon=False)''', '''            self.lexer.pos -= 1
            return self.__check_command_completion(testsemicolon=False)''', ["C02"]),
    ("parser-error-near-indexes-decoded", "parser.py", '''        chunk = text[self.lexer.pos : self.lexer.pos + 4]
        return chunk.decode("utf-8", "ignore")[:1]''', '''        return text.decode()[self.lexer.pos]''', ["C02"]),
    ("commands-lookup-no-class-check", "commands.py", '''        or not hasattr(gl[cname], "args_definition")''', '''        or False''', ["C02"]),
    ("parser-else-not-recorded", "parser.py", '''            self.result += [self.__curcommand]''', '''            if self.__curcommand.name != "stop":
                self.result += [self.__curcommand]''', ["C03", "C04"]),
    ("commands-extra-arg-not-recorded", "commands.py", '''                if add:
                    self.extra_arguments[self.curarg["name"]] = avalue
                self.curarg = None''', '''                if add and self.curarg["name"] != "comparator":
                    self.extra_arguments[self.curarg["name"]] = avalue
                self.curarg = None''', ["C03", "C04"]),
    ("tosieve-drops-extra-arg", "commands.py", '''                    if arg["name"] in self.extra_arguments:
                        value = self.extra_arguments[arg["name"]]
                        atype = arg["extra_arg"]["type"]
                        target.write(" ")''', '''                    if arg["name"] in self.extra_arguments and arg["name"] != "days":
                        value = self.extra_arguments[arg["name"]]
                        atype = arg["extra_arg"]["type"]
                        target.write(" ")''', ["C04"]),
    ("tosieve-multiline-no-newline", "commands.py", '''                    if not value.startswith('"') and not value.startswith("["):
                        target.write("\\n")''', '''                    pass''', ["C04"]),
    ("ext-copy-not-gated-on-redirect", "commands.py", '''class RedirectCommand(ActionCommand):
    args_definition = [
        {
            "name": "copy",
            "type": ["tag"],
            "values": [":copy"],
            "required": False,
            "extension": "copy",
        },''', '''class RedirectCommand(ActionCommand):
    args_definition = [
        {
            "name": "copy",
            "type": ["tag"],
            "values": [":copy"],
            "required": False,
        },''', ["C07", "C01"]),
    ("ext-values-case", "commands.py", '''            extension = arg["extension_values"].get(value.lower())
            if extension:
                condition = (
                    check_extension
                    and extension not in RequireCommand.loaded_extensions
                )''', '''            extension = arg["extension_values"].get(value.lower())
            if extension:
                condition = (
                    check_extension
                    and value == value.lower()
                    and extension not in RequireCommand.loaded_extensions
                )''', ["C07"]),
    ("curcolno-off-by-one", "parser.py", '''        return self.pos - self.text.rfind(b"\\n", 0, self.pos)''', '''        return self.pos - self.text.rfind(b"\\n", 0, self.pos) - 1''', ["C18"]),
    ("curlineno-counts-cr", "parser.py", '''        return self.text[: self.pos].count(b"\\n") + 1''', '''        return self.text[: self.pos].count(b"\\n") + self.text[: self.pos].count(b"\\r\\n") + 1''', ["C18", "C02"]),
    ("factory-no-escape-backslash", "factory.py", '''value.replace("\\\\", "\\\\\\\\").replace('"', '\\\\"')''', '''value.replace('"', '\\\\"')''', ["C06"]),
    ("factory-create-no-require", "factory.py", '''            ":create": "mailbox",
''', '''''', ["C06"]),
    ("factory-require-on-enable-only", "factory.py", '''            if action.extension is not None:
                self.require(action.extension)''', '''            if action.extension is not None and action.extension != "reject":
                self.require(action.extension)''', ["C06"]),
    ("loader-description-lost-when-name-present", "factory.py", '''                if comment.startswith(self.filter_desc_pretext):
                    description = comment.replace(self.filter_desc_pretext, "")''', '''                elif comment.startswith(self.filter_desc_pretext):
                    description = comment.replace(self.filter_desc_pretext, "")
                    name = "Unnamed rule %d" % cpt if cpt > 2 else name''', ["C11"]),
    ("loader-disabled-not-detected", "factory.py", '''                    "enabled": not self.__isdisabled(f),''', '''                    "enabled": True,''', ["C11"]),
    ("movefilter-up-wrong-index", "factory.py", '''                    self.filters.insert(cpt - 1, f)''', '''                    self.filters.insert(cpt, f)''', ["C12"]),
    ("update-forgets-disabled", "factory.py", '''        filter_def["content"] = self.__create_filter(conditions, actions, matchtype)
        if not filter_def["enabled"]:
            return self.disablefilter(newname)
        return True''', '''        filter_def["content"] = self.__create_filter(conditions, actions, matchtype)
        return True''', ["C12"]),
    ("replace-no-unique-check", "factory.py", '''        newname = self._unicode_filter_name(newname)
        if newname != oldname and self.filter_exists(newname):
            raise FilterAlreadyExists
        filter_def["name"] = newname
        filter_def["content"] = sieve_filter''', '''        newname = self._unicode_filter_name(newname)
        filter_def["name"] = newname
        filter_def["content"] = sieve_filter''', ["C12"]),
    ("parser-keeps-extensions", "parser.py", '''        RequireCommand.loaded_extensions = []
''', '''''', ["C13", "C07"]),
    ("parser-keeps-bracket-stack", "parser.py", '''        self.__expected_brackets = []
        RequireCommand''', '''        self.__expected_brackets = getattr(self, "_Parser__expected_brackets", [])
        RequireCommand''', ["C13"]),
    ("rename-no-exists-check", "managesieve.py", '''        if newname in scripts or newname == active_script:
            self.errmsg = b"New script already exists"
            return False''', '''''', ["C14"]),
    ("rename-delete-before-setactive", "managesieve.py", '''        if active_script == oldname:
            if not self.setactive(newname):
                return False
        if not self.deletescript(oldname):
            return False
        return True''', '''        if not self.deletescript(oldname):
            pass
        if active_script == oldname:
            if not self.setactive(newname):
                return False
        return True''', ["C14"]),
    ("read-block-single-recv", "managesieve.py", '''        while size:
            try:
                data = self.sock.recv(size)
            except (socket.timeout, ssl.SSLError):
                raise Error("Failed to read %d bytes from the server" % size)
            if not len(data):
                raise Error("Connection closed by server")
            buf += data
            size -= len(data)''', '''        if size:
            try:
                buf += self.sock.recv(size)
            except (socket.timeout, ssl.SSLError):
                raise Error("Failed to read %d bytes from the server" % size)''', ["C05", "C15"]),
    ("read-line-drops-carry-over", "managesieve.py", '''                self.__read_buffer = self.__read_buffer[pos + len(CRLF) :]
                break''', '''                self.__read_buffer = self.__read_buffer[pos + len(CRLF) :]
                if len(self.__read_buffer) == 1:
                    self.__read_buffer = b""
                break''', ["C05"]),
    ("status-NO-as-success-for-setactive", "managesieve.py", '''        code, data = self.__send_command("SETACTIVE", [scriptname.encode("utf-8")])
        if code == "OK":
            return True
        return False''', '''        code, data = self.__send_command("SETACTIVE", [scriptname.encode("utf-8")])
        if code != "BYE":
            return True
        return False''', ["C09", "C15"]),
    ("errcode-keeps-parens", "managesieve.py", '''            if pos < len(tokens) and tokens[pos][0] == "atom":
                respcode = tokens[pos][1]''', '''            if pos < len(tokens) and tokens[pos][0] == "atom":
                respcode = b"(" + tokens[pos][1] + b")"''', ["C09"]),
    ("quote-no-backslash-escape", "managesieve.py", '''b'"' + a.replace(b"\\\\", b"\\\\\\\\").replace(b'"', b'\\\\"') + b'"\'''', '''b'"' + a.replace(b'"', b'\\\\"') + b'"\'''', ["C08"]),
    ("literal-length-in-characters", "managesieve.py", '''        bcontent: bytes = content.encode("utf-8")
        return LiteralArgument(b"{%d+}%s%s" % (len(bcontent), CRLF, bcontent))''', '''        bcontent: bytes = content.encode("utf-8")
        return LiteralArgument(b"{%d+}%s%s" % (len(content), CRLF, bcontent))''', ["C08", "C15"]),
    ("getscript-not-decorated", "managesieve.py", '''    @authentication_required
    def getscript(self, name: str) -> str:''', '''    def getscript(self, name: str) -> str:''', ["C10"]),
    ("authenticate-before-starttls", "managesieve.py", '''        if starttls and not self.__starttls():
            return False
        if self.__authenticate(login, password, authz_id, authmech):
            return True
        return False''', '''        if self.__authenticate(login, password, authz_id, authmech):
            if starttls and not self.__starttls():
                return False
            return True
        return False''', ["C10"]),
    ("starttls-keeps-old-capabilities", "managesieve.py", '''        self.sock = nsock
        self.__capabilities = {}
        self.__get_capabilities()
        return True''', '''        self.sock = nsock
        return True''', ["C10"]),
    ("authenticated-set-before-verdict", "managesieve.py", '''            auth_method = getattr(self, "_%s_authentication" % mech)
            if auth_method(''', '''            auth_method = getattr(self, "_%s_authentication" % mech)
            self.authenticated = True
            if auth_method(''', ["C10", "C16"]),
    ("plain-swaps-login-password", "managesieve.py", '''        params = base64.b64encode(b"\\0".join([authz_id, login, password]))''', '''        params = base64.b64encode(b"\\0".join([authz_id, password, login]))''', ["C16"]),
    ("mech-preference-order", "managesieve.py", '''SUPPORTED_AUTH_MECHS = ["DIGEST-MD5", "PLAIN", "LOGIN", "OAUTHBEARER"]''', '''SUPPORTED_AUTH_MECHS = ["DIGEST-MD5", "LOGIN", "PLAIN", "OAUTHBEARER"]''', ["C16"]),
    ("named-mech-falls-back", "managesieve.py", '''        for mech in mech_list:
            if mech not in srv_mechanisms:
                continue''', '''        if authmech in SUPPORTED_AUTH_MECHS and authmech not in srv_mechanisms:
            mech_list = SUPPORTED_AUTH_MECHS
        for mech in mech_list:
            if mech not in srv_mechanisms:
                continue''', ["C16"]),
    ("listing-active-case-sensitive-first-token", "managesieve.py", '''            if ("atom", b"ACTIVE") in [(t, v.upper()) for t, v in tokens[1:]]:''', '''            if ("atom", b"ACTIVE") in [(t, v.upper()) for t, v in tokens]:''', ["C17"]),
    ("getscript-strips-blank-first-line", "managesieve.py", '''            return "\\n".join([line.decode("utf-8") for line in script.splitlines()])''', '''            return "\\n".join([line.decode("utf-8") for line in script.splitlines() if not line.startswith(b"OK")])''', ["C17"]),
    ("readback-envelope-flattened", "commands.py", '''            if not isinstance(value, list):
                value = [value]
            result += (value,)
        return result''', '''            if not isinstance(value, list):
                value = [value]
            result += (value,) if len(value) != 2 else tuple(value)
        return result''', ["C19"]),
    ("readback-not-negation-lost-for-body", "factory.py", '''                    elif node.name == "body":
                        args = args[:2] + (":not{}".format(args[2][1:]),) + args[3:]''', '''                    elif node.name == "body":
                        pass''', ["C19"]),
    ("custom-string-param-accepts-list", "commands.py", '''            condition = atype in self.curarg["extra_arg"]["type"] and (''', '''            condition = (atype in self.curarg["extra_arg"]["type"] or atype == "stringlist") and (''', ["C20", "C01"]),
    ("add-commands-also-registers-prefix", "commands.py", '''        if command.__name__.endswith("Command"):
            globals()[command.__name__] = command''', '''        if command.__name__.endswith("Command"):
            globals()[command.__name__] = command
            globals()[command.__name__.replace("Command", "qCommand")] = command''', ["C20"]),
]


def main():
    want = sys.argv[1:]
    tier = os.environ.get("VERIF_TIER", "quick")
    results = []
    for name, fname, old, new, props in M:
        if want and name not in want:
            continue
        d = tempfile.mkdtemp(prefix="vfmut.", dir="/tmp")
        try:
            shutil.copytree("/repo/sievelib", os.path.join(d, "sievelib"), ignore=shutil.ignore_patterns("__pycache__"))
            p = os.path.join(d, "sievelib", fname)
            s = open(p).read()
            if s.count(old) != 1:
                results.append({"mutant": name, "error": "pattern found %d times" % s.count(old)})
                print("%-45s PATTERN-NOT-UNIQUE (%d)" % (name, s.count(old)))
                continue
            open(p, "w").write(s.replace(old, new))
            t = subprocess.run(["/venv/bin/python", "-m", "pytest", "-q", "-p", "no:cacheprovider", "-x", "sievelib"], cwd=d, capture_output=True, text=True)
            tests = t.stdout.strip().splitlines()[-1] if t.stdout.strip() else "?"
            env = dict(os.environ, VERIF_REPO=d, VERIF_EVIDENCE_DIR=os.path.join(d, "evidence"), VERIF_REPLAY_DIR=os.path.join(d, "replays"))
            row = {"mutant": name, "file": fname, "suite": tests, "checks": {}}
            for pr in props:
                r = subprocess.run([os.path.join(ROOT, "check"), pr, "--tier", tier], env=env, capture_output=True, text=True)
                buckets = [l.strip()[len("bucket: "):] for l in r.stdout.splitlines() if l.strip().startswith("bucket:")]
                row["checks"][pr] = {"exit": r.returncode, "violations": len(buckets), "first_buckets": buckets[:3]}
            results.append(row)
            print("%-45s suite: %-28s %s" % (name, tests[:28], "  ".join("%s:%s" % (k, "CAUGHT(%d)" % v["violations"] if v["exit"] == 1 else "exit=%d" % v["exit"]) for k, v in row["checks"].items())))
            sys.stdout.flush()
        finally:
            shutil.rmtree(d, ignore_errors=True)
    os.makedirs(os.path.join(ROOT, "sensitivity"), exist_ok=True)
    path = os.path.join(ROOT, "sensitivity", "results.json")
    if want and os.path.exists(path):
        # selected mutants only: replace their rows in the stored results
        new = {r["mutant"]: r for r in results}
        results = [new.pop(r["mutant"], r) for r in json.load(open(path))] + list(new.values())
    with open(path, "w") as fp:
        json.dump(results, fp, indent=1)


main()
