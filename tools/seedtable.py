#!/usr/bin/env python3
"""Regenerate the table of DESIGN.md section 9 from /verif/seeded/*/meta.json."""
import json
import os
import re

ROOT = os.path.dirname(os.path.dirname(os.path.abspath(__file__)))
HEAD = "| seeded change | files | caught by own check (tier) | first bucket | also caught by (quick) |\n"


def key(name):
    m = re.match(r"C(\d+)-(.*)", name)
    rest = m.group(2)
    rnd = 1 if rest.isdigit() else 2 if rest.startswith("r2") else 3 if rest.startswith("r3") else 4
    return (int(m.group(1)), rnd, rest)


def main():
    rows = []
    for name in sorted(os.listdir(os.path.join(ROOT, "seeded")), key=key):
        mp = os.path.join(ROOT, "seeded", name, "meta.json")
        if not os.path.exists(mp):
            continue
        m = json.load(open(mp))
        files = ", ".join(os.path.basename(f) for f in m.get("files", []))
        own = m.get("own_check", {})
        tier = "-"
        bucket = "-"
        for k in own:
            if own[k]["exit"] == 1:
                tier = k.split(":")[1]
                bucket = re.sub(r" \(x\d+\)$", "", own[k]["buckets"][0]) if own[k]["buckets"] else "-"
                break
        rc = m.get("recheck") or {}
        if rc.get("exit") == 1:
            # latest run of the own quick check against this change on /repo's current HEAD
            tier = "quick"
            bucket = re.sub(r" \(x\d+\)$", "", rc["buckets"][0]) if rc.get("buckets") else bucket
        elif "exit" in rc and rc["exit"] != 1 and tier == "quick":
            tier = "NOT CAUGHT by the latest quick run"
        if m.get("superseded"):
            tier = "superseded (see text)"
            bucket = "-"
        elif m.get("outside_claim"):
            tier = "not caught: outside the claim (see text)"
            bucket = "-"
        elif tier == "-":
            tier = "NOT CAUGHT"
        others = sorted(p for p, v in m.get("other_checks_quick", {}).items() if v == "CAUGHT")
        if m.get("other_checks_quick") is None or (not m.get("other_checks_quick") and key(name)[1] == 4):
            oth = "(not run)"
        else:
            oth = ", ".join(others) or "-"
        rows.append("| %s | %s | %s | `%s` | %s |\n" % (name, files, tier, bucket, oth))
    table = HEAD + "|---------------|-------|----------------------------|--------------|------------------------|\n" + "".join(rows)
    p = os.path.join(ROOT, "DESIGN.md")
    s = open(p).read()
    a = s.index(HEAD)
    b = s.index("\n\n", a)
    open(p, "w").write(s[:a] + table.rstrip("\n") + s[b:])
    print("%d rows" % len(rows))


main()
