#!/usr/bin/env python3
"""Regenerates /verif/MANIFEST.json from the table below (keeps it valid at all times)."""
import json, os
ROOT = os.path.dirname(os.path.dirname(os.path.abspath(__file__)))

CHECKS = {
 "C01": dict(cat="exploration", tech="exhaustive token enumeration + Hypothesis grammar-directed generation and mutation vs. independent reference recogniser (differential), metamorphic layout invariance",
   text="Bounded-exhaustive (blind to length 3/4, viable-prefix-guided to 5/7 over an 87-token vocabulary) plus randomised exploration of verdict agreement with an independent reference recogniser of the supported language; evidence of absence only within the bounds.",
   note="Trusted: vf/refsieve (lexer, frozen command table, recogniser) as definition of the supported language; UNSPEC inputs carry no claim."),
 "C02": dict(cat="exploration", tech="exhaustive token enumeration + Hypothesis byte-level mutation fuzzing + identifier-collision enumeration; oracle: no exception, lexer-step bound, result shape, line-event scaling",
   text="Bounded-exhaustive and randomised search for crashes, hangs (lexer-step budget), malformed error/result shapes and super-linear work; sampling cannot show absence over all byte strings.",
   note="Trusted: step counter wrapped around Parser.lexer.scan; sys.monitoring line counts as work measure (regex-engine time invisible)."),
 "C03": dict(cat="exploration", tech="differential: harness walk of Parser.result vs. independent RFC 5228 8.2 generic-grammar parser over enumerated and generated accepted inputs",
   text="Every accepted input of the enumerated/generated spaces is compared node by node with an independent generic-grammar parse; bounded-exhaustive plus random.",
   note="Trusted: vf/refsieve/generic.py and lexer.py."),
 "C04": dict(cat="exploration", tech="round-trip (parse -> tosieve -> parse -> tosieve) over enumerated and Hypothesis-generated scripts with a quoting-oriented value generator",
   text="Round-trip oracle (tree equality modulo tag order, text fixed point) over bounded-exhaustive and generated accepted scripts.",
   note="Trusted: harness tree walker vf/impl.py; depth bounded."),
 "C07": dict(cat="exploration", tech="invariant walk with frozen extension table over accepted inputs + metamorphic require-removal on generated valid scripts",
   text="Forward gating checked on every accepted enumerated/generated input by an independent walk; converse checked by removing each required extension (and subsets) from generated valid scripts.",
   note="Trusted: frozen extension table in vf/refsieve/table.py."),
 "C18": dict(cat="exploration", tech="Hypothesis construction of (valid script, insertion point, offending token, layout, tail) with reference-confirmed class membership; oracle: exact (line, byte column, length) computed from the assembled text, metamorphic tail replacement; differential lower bound from the reference's first offending token",
   text="Randomised exploration of error positions over ten offending-token classes, layouts with comments/multi-byte text/CRLF and tails; exact expected positions computed by the harness.",
   note="Trusted: reference recogniser confirms the inserted token is the first offending token of its class."),
 "C06": dict(cat="exploration", tech="Hypothesis generation of filter definitions and edit histories; oracles: parser + independent strict validator, require coverage walk, metamorphic skeleton invariance under value substitution, string-literal multiset",
   text="Randomised exploration of factory output over condition/action kinds x hostile value alphabet and over edit histories, five independent oracles per case.",
   note="Trusted: vf/refsieve strict mode, frozen extension table; generator respects the factory API's implicit preconditions (DESIGN 2.4)."),
 "C11": dict(cat="exploration", tech="Hypothesis edit histories -> render -> parse -> load round trip (model of names/flags/descriptions/requires, tree equality, fixed point)",
   text="Randomised exploration of save/load round trips over reachable filter-set states, names/descriptions incl. non-ASCII and custom marker prefixes.",
   note="Trusted: harness tree walker; names/descriptions restricted as in the quantifier."),
 "C12": dict(cat="exploration", tech="model-based stateful testing (Hypothesis RuleBasedStateMachine) + exhaustive enumeration of short histories against a reference ordered-unique-list model",
   text="All histories up to length 3/4 over 60 operations enumerated exhaustively, longer ones sampled by a rule-based state machine; reference model compared after every step.",
   note="Trusted: reference list model vf/fsmodel.py; return values the property leaves open are not asserted."),
 "C13": dict(cat="exploration", tech="stateful testing (Hypothesis RuleBasedStateMachine) with differential oracle: same step executed in a pristine forked interpreter image",
   text="Randomised histories of parses on reused/fresh parsers interleaved with FiltersSet operations; each observation compared with a pristine process.",
   note="Trusted: fork-server vf/pristine.py gives the 'just imported' state."),
 "C19": dict(cat="exploration", tech="Hypothesis generation of filter definitions; round-trip oracle (supplied == read back) on original, reloaded and disabled sets",
   text="Randomised exploration of read-back identity over the supported condition/action forms and a value alphabet with commas, brackets, spaces, non-ASCII.",
   note="Definitions restricted to the forms C19 lists."),
 "C20": dict(cat="exploration", tech="Hypothesis generation of args_definitions + per-definition enumeration of uses and single-edit invalid uses vs. reference recogniser interpreting the same definition; round trip",
   text="Randomised definitions, bounded-exhaustive uses per definition; verdict, argument recording and print/parse round trip checked.",
   note="Trusted: harness translation of a definition into a reference table entry (vf/props/c20.py:to_entry)."),
 "C05": dict(cat="exploration", tech="differential (segmented vs single-chunk delivery) over Hypothesis replies x exhaustive cut placements / recv caps / k-way splits, with sentinel operations",
   text="For every generated reply all single cuts (and all pairs for short replies) are enumerated, plus capped and random splits; observable behaviour must equal the unsegmented run and the reply must be consumed exactly.",
   note="Trusted: fake transport vf/msref/transport.py; replies come from the RFC 5804 reply grammar generator."),
 "C08": dict(cat="exploration", tech="Hypothesis argument fuzzing of every client operation; oracle: strict RFC 5804 command parser applied to the bytes given to sendall",
   text="Randomised exploration of script names/contents/sizes over a hostile alphabet; the written bytes must parse strictly to exactly one intended command with the caller's values.",
   note="Trusted: strict command parser vf/msref/wire.py."),
 "C09": dict(cat="exploration", tech="Hypothesis generation of status replies from the RFC 5804 response grammar x operations, expected outcome computed from the abstract reply; fault injection at each step of multi-step operations",
   text="Randomised exploration of reply shapes (status x code x text form) for every operation, NO/BYE at each step of multi-step operations, sentinel operation after each.",
   note="Expected results derive from the generated abstract reply, never from re-parsing."),
 "C10": dict(cat="exploration", tech="Hypothesis call histories x handshake fault injection x capability sets against a reference server with plain/TLS channel write log; introspection-driven enumeration of public methods",
   text="Randomised histories over the public API with faults at every handshake step; ordering of writes relative to authentication and the simulated TLS handshake is checked on the write log.",
   note="TLS is simulated; the static reachability clause is approximated dynamically (DESIGN C10)."),
 "C14": dict(cat="fault_enumeration", tech="exhaustive enumeration of initial states x fault placement x fault kind x bodies x reply encodings against a reference ManageSieve server",
   text="Complete enumeration (8064 cases) of the stated product space; the reference server's store before/after is the oracle.",
   note="Trusted: reference server vf/msref/server.py; 'not at all' = read timeout."),
 "C15": dict(cat="exploration", tech="model-based stateful testing (Hypothesis RuleBasedStateMachine) against an executable reference server with drawn reply encodings, NO outcomes and recv segmentation",
   text="Randomised sessions up to 40 operations; after every step result, intended-effects model, violation log and receive queue are checked.",
   note="Trusted: reference server and strict parser."),
 "C16": dict(cat="exploration", tech="exhaustive enumeration of announced-mechanism lists x preferred mechanism + Hypothesis unicode credentials; payload decoded by reference SASL servers",
   text="Selection rule checked on all 1045 lists x 7 preferences; payload exactness on randomised credentials for PLAIN, LOGIN, OAUTHBEARER, DIGEST-MD5.",
   note="Trusted: vf/msref/sasl.py (self-tested on RFC examples)."),
 "C17": dict(cat="exploration", tech="Hypothesis generation of look-alike bodies and name sets served in every permitted encoding (enumerated); oracle: equality with what was served",
   text="Randomised data values x exhaustive encodings per value; transparency of getscript/listscripts checked with a sentinel afterwards.",
   note="Bodies compared line-wise as the property states."),
}

NOT_YET = {
 # filled while the checks are being built; every id not in CHECKS must be here
}

def main():
    props = [json.loads(l)["id"] for l in open(os.path.join(ROOT, "properties.jsonl"))]
    checks = []
    for pid in props:
        c = CHECKS.get(pid)
        if not c:
            continue
        checks.append({
            "property_id": pid,
            "quick_cmd": "./check %s --tier quick" % pid,
            "thorough_cmd": "./check %s --tier thorough" % pid,
            "evidence_file": "evidence/%s.json" % pid,
            "replay_cmd_template": "./check %s --replay {path}" % pid,
            "engine": "vf",
            "level_claimed": {"category": c["cat"], "text": c["text"], "design_ref": "DESIGN.md section 3, %s" % pid},
            "level_note": c["note"],
            "technique": c["tech"],
        })
    na = [{"property_id": pid, "reason": NOT_YET.get(pid, "check not built yet in this round (planned, see DESIGN.md section 3)")}
          for pid in props if pid not in CHECKS]
    m = {
        "version": 1,
        "setup_cmd": "./setup.sh",
        "hooks": {"guard": "SIEVELIB_VERIF", "enable": "no source hooks are needed: checks import /repo/sievelib directly (pure Python) and instrument from outside",
                  "baseline_off_cmd": "cd /repo && /venv/bin/python -m pytest -q -p no:cacheprovider --timeout=900",
                  "source_commits": [], "add_only": True},
        "engines": [{"name": "vf", "path": "vf/", "serves_properties": [c["property_id"] for c in checks],
                     "kind_free_text": "Python property-based testing / fuzzing harness: Hypothesis generators and state machines, exhaustive enumerators, reference Sieve recogniser (vf/refsieve) and reference ManageSieve server (vf/msref)"}],
        "checks": checks,
        "not_applicable": na,
        "notes": "Exit codes: 0 held (KNOWN-FINDING lines possible), 1 violation (VIOLATION line per bucket), 2 harness problem. VERIF_SEED seeds Hypothesis; exhaustive parts are seed independent. Known findings: known_findings.json.",
    }
    with open(os.path.join(ROOT, "MANIFEST.json"), "w") as fp:
        json.dump(m, fp, indent=1)
    print("MANIFEST.json: %d checks, %d not_applicable" % (len(checks), len(na)))

main()
