#!/usr/bin/env python3
"""Re-run the property's own quick check against stored seeded changes on /repo's current HEAD.

usage: tools/reseed.py K N [name ...]     (stream K of N; scratch worktree /tmp/reseed_K, removed at the end)
Each seeded/<name>/patch.diff is applied to a scratch worktree of /repo, ./check <prop> --tier quick is run with
VERIF_REPO=<worktree>, the worktree is restored; meta.json gets a "recheck" entry (HEAD, exit, first buckets)."""
import json
import os
import re
import subprocess
import sys

ROOT = os.path.dirname(os.path.dirname(os.path.abspath(__file__)))


def sh(cmd, cwd=None, env=None):
    r = subprocess.run(cmd, cwd=cwd, env=env, capture_output=True, text=True)
    return r.returncode, r.stdout + r.stderr


def main():
    k, n = int(sys.argv[1]), int(sys.argv[2])
    names = sys.argv[3:] or sorted(os.listdir(os.path.join(ROOT, "seeded")))
    names = [x for i, x in enumerate(names) if i % n == k]
    wt = "/tmp/reseed_%d" % k
    sh(["git", "-C", "/repo", "worktree", "remove", "--force", wt])
    rc, out = sh(["git", "-C", "/repo", "worktree", "add", "--detach", wt, "HEAD"])
    if rc:
        sys.exit(out)
    head = sh(["git", "-C", "/repo", "rev-parse", "--short", "HEAD"])[1].strip()
    try:
        for name in names:
            d = os.path.join(ROOT, "seeded", name)
            mp = os.path.join(d, "meta.json")
            if not os.path.exists(mp):
                continue
            meta = json.load(open(mp))
            prop = meta["property"]
            rc, out = sh(["git", "apply", os.path.join(d, "patch.diff")], cwd=wt)
            if rc:
                # the stored patch was made against an older HEAD: merge it
                sh(["git", "checkout", "--", "."], cwd=wt)
                rc, out = sh(["git", "apply", "--3way", os.path.join(d, "patch.diff")], cwd=wt)
                sh(["git", "reset", "-q"], cwd=wt)
                if not rc and "conflict" in out.lower():
                    rc = 1
            if rc:
                meta["recheck"] = {"head": head, "error": "patch does not apply: " + out[:200]}
                print("%-28s PATCH-DOES-NOT-APPLY" % name)
            else:
                env = dict(os.environ, VERIF_REPO=wt, VERIF_EVIDENCE_DIR="/tmp/reseed-ev-%d" % k, VERIF_REPLAY_DIR="/tmp/reseed-rp-%d" % k)
                rc, out = sh([os.path.join(ROOT, "check"), prop, "--tier", "quick"], env=env)
                buckets = [l.strip()[len("bucket: "):] for l in out.splitlines() if l.strip().startswith("bucket:")]
                meta["recheck"] = {"head": head, "exit": rc, "n_buckets": len(buckets), "buckets": buckets[:3]}
                print("%-28s %s %s" % (name, "CAUGHT" if rc == 1 else "exit=%d" % rc, buckets[:1]))
            sys.stdout.flush()
            sh(["git", "checkout", "--", "."], cwd=wt)
            sh(["git", "clean", "-fdq"], cwd=wt)
            json.dump(meta, open(mp, "w"), indent=1)
    finally:
        sh(["git", "-C", "/repo", "worktree", "remove", "--force", wt])
        sh(["rm", "-rf", "/tmp/reseed-ev-%d" % k, "/tmp/reseed-rp-%d" % k])


main()
