#!/usr/bin/env python3
"""Confirm a seeded change produced by an independent sub-agent and run the checks against it.

usage: tools/seedcheck.py C05 [k ...]        (worktree /tmp/seed_C05, candidates out/<k>/)
For each candidate: the scratch worktree must be clean; demo exits 0 on the clean tree; with the patch applied the
repository's suite still passes (123) and the demo exits 1; then the property's own check (quick, and thorough if
quick misses) and the checks of the same family are run with VERIF_REPO=<worktree>; the worktree is restored.
Confirmed candidates are stored as /verif/seeded/<id>-<k>/ (patch.diff, demo.py, NOTE.txt, meta.json)."""
import json
import os
import re
import shutil
import subprocess
import sys

ROOT = os.path.dirname(os.path.dirname(os.path.abspath(__file__)))
FAMILY = {
    "parser": ["C01", "C02", "C03", "C04", "C07", "C18", "C20", "C13"],
    "factory": ["C06", "C11", "C12", "C19", "C13"],
    "managesieve": ["C05", "C08", "C09", "C10", "C14", "C15", "C16", "C17"],
}


def sh(cmd, cwd=None, env=None, timeout=3600):
    r = subprocess.run(cmd, cwd=cwd, env=env, capture_output=True, text=True, timeout=timeout, shell=isinstance(cmd, str))
    return r.returncode, r.stdout + r.stderr


def run_check(prop, wt, tier):
    env = dict(os.environ, VERIF_REPO=wt, VERIF_EVIDENCE_DIR="/tmp/seedcheck-evidence-%s" % os.path.basename(wt), VERIF_REPLAY_DIR="/tmp/seedcheck-replays-%s" % os.path.basename(wt))
    rc, out = sh([os.path.join(ROOT, "check"), prop, "--tier", tier], env=env)
    buckets = [l.strip()[len("bucket: "):] for l in out.splitlines() if l.strip().startswith("bucket:")]
    return {"exit": rc, "buckets": buckets[:4], "n_buckets": len(buckets)}


def main():
    prop = sys.argv[1]
    wt = "/tmp/seed_%s" % prop
    region = None
    if prop.startswith("R3_"):
        region = prop
    ks = sys.argv[2:] or sorted(os.listdir(os.path.join(wt, "out")))
    for k in ks:
        d = os.path.join(wt, "out", k)
        if region:
            # round 3: candidates are grouped by code region; the property is named in out/<k>/PROP
            try:
                prop = open(os.path.join(d, "PROP")).read().strip().split()[0]
            except OSError:
                print("== %s candidate %s: no PROP file" % (region, k))
                continue
        meta = {"property": prop, "candidate": k, "confirmed": False}
        if region:
            meta["region"] = region
        print("== %s candidate %s" % (prop, k))
        rc, st = sh("git status --porcelain", cwd=wt)
        dirty = [l for l in st.splitlines() if not l.startswith("??")]
        if dirty:
            print("   worktree not clean: %s" % dirty)
            sh("git checkout -- .", cwd=wt)
        patch = os.path.join(d, "patch.diff")
        demo = os.path.join(d, "demo.py")
        if not (os.path.exists(patch) and os.path.exists(demo)):
            print("   missing patch.diff or demo.py")
            continue
        rc0, out0 = sh(["/venv/bin/python", demo], cwd=wt, timeout=300)
        meta["demo_clean_exit"] = rc0
        rc, out = sh(["git", "apply", patch], cwd=wt)
        if rc != 0:
            print("   patch does not apply: %s" % out[:300])
            continue
        try:
            files = sorted(set(re.findall(r"^\+\+\+ b/(\S+)", open(patch).read(), re.M)))
            meta["files"] = files
            rc, out = sh(["/venv/bin/python", "-m", "pytest", "-q", "-p", "no:cacheprovider"], cwd=wt)
            tail = out.strip().splitlines()[-1] if out.strip() else "?"
            meta["suite"] = tail
            rc1, out1 = sh(["/venv/bin/python", demo], cwd=wt, timeout=300)
            meta["demo_patched_exit"] = rc1
            meta["demo_patched_output"] = out1[-600:]
            ok = rc0 == 0 and rc1 == 1 and "123 passed" in tail and "failed" not in tail
            meta["confirmed"] = ok
            print("   demo clean=%d patched=%d suite=%s -> %s" % (rc0, rc1, tail, "CONFIRMED" if ok else "NOT CONFIRMED"))
            if not ok:
                continue
            fam = []
            for f in files:
                for name, props in FAMILY.items():
                    if name in f or (name == "parser" and ("commands" in f or "tools" in f)) or (name == "managesieve" and "digest" in f):
                        fam += props
            fam = [p for p in dict.fromkeys(fam) if p != prop]
            if os.environ.get("SEEDCHECK_FAMILY", "1") == "0":
                fam = []
            res = {}
            res[prop + ":quick"] = run_check(prop, wt, "quick")
            caught = res[prop + ":quick"]["exit"] == 1
            if not caught and os.environ.get("SEEDCHECK_THOROUGH", "1") != "0":
                res[prop + ":thorough"] = run_check(prop, wt, "thorough")
                caught = res[prop + ":thorough"]["exit"] == 1
            others = {}
            for p in fam:
                r = run_check(p, wt, "quick")
                others[p] = r
            meta["own_check"] = res
            meta["caught_by_own_check"] = caught
            meta["other_checks_quick"] = {p: ("CAUGHT" if r["exit"] == 1 else "exit=%d" % r["exit"]) for p, r in others.items()}
            meta["other_buckets"] = {p: r["buckets"][:2] for p, r in others.items() if r["exit"] == 1}
            print("   own check: %s   others: %s" % ("CAUGHT " + str(res[[x for x in res][-1]]["buckets"][:2]) if caught else "MISSED", meta["other_checks_quick"]))
        finally:
            sh("git checkout -- .", cwd=wt)
            sh("git clean -fdq -e out -e PROPERTY.txt", cwd=wt)
        dest = os.path.join(ROOT, "seeded", "%s-%s" % (prop, k) if not region else "%s-r3-%s-%s" % (prop, region[3:], k))
        os.makedirs(dest, exist_ok=True)
        shutil.copy(patch, os.path.join(dest, "patch.diff"))
        s = open(demo).read().replace('"%s"' % wt, 'os.environ.get("SIEVELIB_REPO", "/repo")').replace("'%s'" % wt, 'os.environ.get("SIEVELIB_REPO", "/repo")')
        if "import os" not in s:
            s = "import os\n" + s
        open(os.path.join(dest, "demo.py"), "w").write(s)
        note = os.path.join(d, "NOTE.txt")
        if os.path.exists(note):
            shutil.copy(note, os.path.join(dest, "NOTE.txt"))
            meta["needs_to_manifest"] = open(note).read()[:1500]
        meta["breaks_property"] = prop
        meta["what_was_run"] = ("in the sub-agent's scratch worktree %s: demo on clean tree (exit 0 expected), git apply patch.diff, "
                                "/venv/bin/python -m pytest -q -p no:cacheprovider (123 passed expected), demo (exit 1 expected), "
                                "then ./check <prop> --tier quick (thorough if missed) and the family's quick checks with VERIF_REPO=<worktree>; "
                                "worktree restored with git checkout" % wt)
        json.dump(meta, open(os.path.join(dest, "meta.json"), "w"), indent=1)
    shutil.rmtree("/tmp/seedcheck-evidence-%s" % os.path.basename(wt), ignore_errors=True)
    shutil.rmtree("/tmp/seedcheck-replays-%s" % os.path.basename(wt), ignore_errors=True)


main()
