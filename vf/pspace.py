"""The shared input spaces of the parser properties (C01-C04, C07, C18):
 (a) blind exhaustive token sequences, (b) guided exhaustive (viable prefix +
 one token), (c) grammar-directed valid scripts, (d) single-edit mutants,
 (e) layout variants.  A property supplies judge(text, meta, col)."""

import importlib

from hypothesis import HealthCheck, Phase, given, seed as hseed, settings, strategies as st

from . import core
from .gen import tokens as T
from .gen import scripts as S

BOUNDS = {
    #            blind  guided  gen/shard  mutants  layouts  depth
    "quick": dict(blind=3, guided=6, gen=150, mutants=6, layouts=2, depth=3, genshards=16),
    "thorough": dict(blind=4, guided=7, gen=2500, mutants=10, layouts=3, depth=6, genshards=16),
}


def hyp_settings(n):
    return settings(max_examples=n, database=None, deadline=None, derandomize=False,
                    report_multiple_bugs=False, suppress_health_check=list(HealthCheck),
                    phases=[Phase.generate])


def shards_for(tier, seed, parts=("blind", "guided", "gen"), overrides=None):
    b = dict(BOUNDS[tier])
    if overrides:
        b.update(overrides)
    out = []
    nv = len(T.FULL)
    if "blind" in parts and b["blind"] > 0:
        for i in range(nv):
            out.append(("blind", i, b["blind"]))
    if "guided" in parts and b["guided"] > 0:
        for i in range(nv):
            out.append(("guided", i, b["guided"]))
    if "gen" in parts:
        for k in range(b["genshards"]):
            out.append(("gen", seed * 1000 + k, b))
    if "matrix" in parts or "gen" in parts:
        for k in range(4):
            out.append(("matrix", k, 4))
        for k in range(16):
            out.append(("punct2", k, 16))
    return out


def minimal_use(name, table=None):
    """Token list of a minimal VALID script using command/test `name`
    (require first), and the index right after the command identifier."""
    from .refsieve import TABLE
    table = table or TABLE
    e = table[name]
    exts = []
    if e.ext:
        exts.append(e.ext)
    args = []
    for p in e.pos:
        if p.optional:
            continue
        if "tag" in p.kinds:
            args.append(p.choices[0])
        elif "num" in p.kinds:
            args.append(b"1")
        else:
            args.append(b'"a"')
    toks = []
    if e.role == "test":
        toks = [b"if", name] + args
        at = 2
        if e.test == "one":
            toks += [b"true"]
        elif e.test == "list":
            toks += [b"(", b"true", b")"]
        toks += [b"{", b"}"]
    else:
        pre = []
        if e.follow:
            pre = [b"if", b"true", b"{", b"}"]
        toks = pre + [name] + args
        at = len(pre) + 1
        if e.test == "one":
            toks += [b"true"]
        if e.block:
            toks += [b"{", b"}"]
        else:
            toks += [b";"]
    return exts, toks, at


def matrix_cases():
    """Every command x every tag of the vocabulary inserted right after the
    command identifier, without and with a parameter of each kind, each with
    all extensions required (so that only the tag's legality is at stake)."""
    from .refsieve import TABLE, SUPPORTED_EXTENSIONS
    req = [b"require", b"["]
    for i, x in enumerate(SUPPORTED_EXTENSIONS):
        if i:
            req.append(b",")
        req.append(b'"%s"' % x.encode())
    req += [b"]", b";"]
    params = [[], [b'"i;octet"'], [b'"ge"'], [b'"x"'], [b"7"], [b"[", b'"x"', b"]"], [b"text:\nx y\n.\n"], [b"[", b'"x"', b",", b"text:\ny\n.\n", b"]"]]
    for name in sorted(TABLE):
        exts, toks, at = minimal_use(name)
        for tag in T.TAGS + [T.UNKNOWN_TAG]:
            for variant in (tag, tag.upper()):
                for par in params:
                    yield req + toks[:at] + [variant] + par + toks[at:]
    # every ordered pair of tags each of which the command takes on its own (with the
    # parameter it takes): constraints between tags, and between their order in the
    # source and in the serialiser's output, show only here
    from .refsieve import analyze, VALID
    for name in sorted(TABLE):
        exts, toks, at = minimal_use(name)
        single = []
        for tag in T.TAGS:
            for par in params:
                if analyze(T.join(req + toks[:at] + [tag] + par + toks[at:])).verdict == VALID:
                    single.append((tag, par))
                    break
        for t1, p1 in single:
            for t2, p2 in single:
                if t1 != t2:
                    yield req + toks[:at] + [t1] + p1 + [t2] + p2 + toks[at:]


PUNCT2_TEMPLATES = [
    b'if anyof ( true , false ) { keep ; stop ; }',
    b'if true { if true { keep ; } } stop ;',
    b'require [ "fileinto" , "copy" ] ; fileinto :copy "a" ;',
    b'if header [ "a" , "b" ] "c" { keep ; } else { stop ; }',
    b'if not anyof ( not allof ( true ) , false ) { keep ; }',
    b'if true { keep ; } elsif anyof ( true ) { stop ; } else { discard ; }',
]


def _punct_edits(toks):
    n = len(toks)
    eds = []
    for i in range(n):
        eds.append(("del", i, None))
        for p in T.PUNCT:
            if p != toks[i]:
                eds.append(("rep", i, p))
    for i in range(n + 1):
        for p in T.PUNCT:
            eds.append(("ins", i, p))
    return eds


def _apply_edit(toks, e):
    kind, i, p = e
    if kind == "del":
        return toks[:i] + toks[i + 1:]
    if kind == "rep":
        return toks[:i] + [p] + toks[i + 1:]
    return toks[:i] + [p] + toks[i:]


def punct2_cases(k, n):
    """All single and double punctuation edits (delete a token, replace it by a
    punctuation token, insert a punctuation token) of a few bracket-rich
    templates: the bracket stack and the expected-token set under pairs of
    coordinated errors.  Shard k of n."""
    cnt = 0
    for tpl in PUNCT2_TEMPLATES:
        toks = tpl.split(b" ")
        eds = _punct_edits(toks)
        for a, e1 in enumerate(eds):
            t1 = _apply_edit(toks, e1)
            cnt += 1
            if cnt % n == k:
                yield t1
            for e2 in _punct_edits(t1):
                # canonical order: second edit not before the first one's position
                if e2[1] < e1[1]:
                    continue
                cnt += 1
                if cnt % n == k:
                    yield _apply_edit(t1, e2)


def _judge_of(modname):
    return importlib.import_module(modname).judge


def worker(arg):
    modname, shard = arg
    judge = _judge_of(modname)
    col = core.Collector()
    kind = shard[0]
    if kind == "blind":
        _, first, maxlen = shard
        for seq in T.blind(T.FULL, maxlen, first):
            judge(T.join(seq), {"src": "blind", "toks": seq}, col)
    elif kind == "guided":
        _, first, maxlen = shard
        for seq, r in T.guided(T.FULL, maxlen, first):
            judge(T.join(seq), {"src": "guided", "toks": seq, "ref": r}, col)
    elif kind == "gen":
        _, sd, b = shard
        _gen_shard(judge, col, sd, b)
    elif kind == "punct2":
        _, k, n = shard
        for toks in punct2_cases(k, n):
            judge(T.join(toks), {"src": "punct2", "toks": toks}, col)
    elif kind == "matrix":
        _, k, n = shard
        for i, toks in enumerate(matrix_cases()):
            if i % n == k:
                judge(T.join(toks), {"src": "matrix", "toks": toks}, col)
    return col


def _gen_shard(judge, col, sd, b):
    @hyp_settings(b["gen"])
    @hseed(sd)
    @given(st.data())
    def body(data):
        toks = data.draw(S.valid_script(maxdepth=b["depth"]))
        base = S.canonical(toks)
        judge(base, {"src": "gen", "toks": toks}, col)
        variants = []
        for _ in range(b["layouts"]):
            variants.append(data.draw(S.layout(toks)))
        judge(base, {"src": "layout", "toks": toks, "variants": variants}, col)
        for j in range(b["mutants"]):
            kind, mt = data.draw(S.mutate(toks))
            if kind == "noop":
                continue
            mtext = S.canonical(mt)
            judge(mtext, {"src": "mutant", "toks": mt, "mkind": kind}, col)
            if j == 0:
                judge(mtext, {"src": "layout", "toks": mt, "variants": [data.draw(S.layout(mt))]}, col)

    body()


def run(modname, tier, seed, parts=("blind", "guided", "gen"), overrides=None):
    shards = shards_for(tier, seed, parts, overrides)
    # big shards first for better balance
    return core.run_shards(worker, [(modname, s) for s in shards])
