"""C18 - Parse errors point at the offending place."""

import sys

from hypothesis import given, seed as hseed, strategies as st

from .. import core, impl, pspace
from ..refsieve import analyze, TABLE, INVALID, VALID
from ..gen import scripts as S

PROP = "C18"
MOD = __name__

RULE = ("class A: (Hypothesis valid multi-line script, insertion point chosen by token context, offending token of a class "
        "named in the statement) with random layout before it (comments, multi-byte text, LF/CRLF) and a random tail; kept "
        "only when the reference recogniser confirms the inserted token is the first offending token of that class; "
        "oracle: parse False, error 'line L:', error_pos[:2]==(L, byte column) computed from the assembled text, "
        "error_pos[2]==byte length (non-lexical), unchanged under tail replacement. class B: other single-edit mutants: "
        "reported offset >= offset of the reference's first offending token, and unchanged when the text after the token at the "
        "reported position is replaced. Both classes: the same report from a Parser that parsed two other scripts (one rejected, one "
        "accepted, other line structure) just before. Non-trivial = insertion line >= 2 and a multi-byte character or comment before it.")

JUNK = [b"@", b"%", b"^x", b"&&", b"\xc3\xa9", b"=", b"!", b"\xe2\x82\xac", b"~a", b"'q'", b"*", b"-1", b"/", b'"unterminated']
EXT_CMDS = {"fileinto": b"fileinto", "reject": b"reject", "vacation": b"vacation", "imap4flags": b"setflag", "variables": b"set"}
EXT_TESTS = {"envelope": b"envelope", "body": b"body", "imap4flags": b"hasflag", "date": b"currentdate"}
TAG_EXT = {  # command -> [(tag, ext)]
    b"redirect": [(b":copy", "copy")],
    b"keep": [(b":flags", "imap4flags")],
    b"fileinto": [(b":copy", "copy"), (b":create", "mailbox"), (b":flags", "imap4flags")],
    b"header": [(b":regex", "regex"), (b":count", "relational"), (b":value", "relational")],
    b"address": [(b":regex", "regex"), (b":count", "relational")],
    b"envelope": [(b":regex", "regex"), (b":value", "relational")],
    b"body": [(b":regex", "regex")],
    b"hasflag": [(b":count", "relational")],
    b"currentdate": [(b":value", "relational")],
    b"date": [(b":regex", "regex")],
    b"vacation": [(b":seconds", "vacation-seconds")],
}
PRE_SEPS = [b" ", b"\n", b"\r\n", b"\t", b" /* \xc3\xa9 */ ", b" # \xe2\x82\xac c\n", b"\n\n", b" # c\r\n", b"  "]
TAILS = [b"", b" ;", b" keep;", b"\n}", b' "x" ;', b"\n@ @", b" { } ", b"\r\nstop;\r\n", b" , ) ]", b' "unterminated', b" /* open",
         b" :is 1 [", b" \xff\xfe", b"\nif true { keep; }\n"]

CLASSES = ["junk", "unknown-command", "ext-command", "ext-test", "ext-tag", "bogus-tag", "surplus-string", "surplus-number",
           "test-as-command", "nontest-as-test"]
REASONS = {
    "junk": {"lexical"}, "unknown-command": {"unknown-command"}, "ext-command": {"extension-not-loaded"},
    "ext-test": {"extension-not-loaded"}, "ext-tag": {"extension-not-loaded"}, "bogus-tag": {"unknown-tag", "bad-tag-value"},
    "surplus-string": {"surplus"}, "surplus-number": {"surplus"}, "test-as-command": {"wrong-role"},
    "nontest-as-test": {"wrong-role"},
}


def loaded_exts(toks):
    out = set()
    i = 0
    while i < len(toks):
        if toks[i].lower() == b"require":
            j = i + 1
            while j < len(toks) and toks[j] != b";":
                if toks[j][:1] == b'"':
                    out.add(toks[j][1:-1].decode())
                j += 1
            i = j
        i += 1
    return out


def candidates(toks, cls, exts):
    """Insertion indices and tokens suitable for class cls: list of (i, tok)."""
    n = len(toks)
    low = [t.lower() for t in toks]
    cmdstart = [i for i in range(n + 1) if i == 0 or toks[i - 1] in (b";", b"{", b"}")]
    testpos = [i for i in range(1, n + 1) if low[i - 1] in (b"if", b"elsif", b"not") or toks[i - 1] == b"("]
    out = []
    if cls == "junk":
        out = [(i, None) for i in range(n + 1)]
    elif cls == "unknown-command":
        out = [(i, t) for i in cmdstart for t in (b"foo", b"Bar_1", b"keepx", b"x", b"UNKNOWN_command_with_a_long_name")]
    elif cls == "ext-command":
        out = [(i, t) for i in cmdstart for e, t in EXT_CMDS.items() if e not in exts]
    elif cls == "ext-test":
        out = [(i, t) for i in testpos for e, t in EXT_TESTS.items() if e not in exts]
    elif cls == "ext-tag":
        for i in range(1, n + 1):
            for tag, e in TAG_EXT.get(low[i - 1], ()):
                if e not in exts:
                    out.append((i, tag))
    elif cls == "bogus-tag":
        out = [(i, t) for i in range(1, n + 1) if low[i - 1] in TABLE for t in (b":bogus", b":ISNT", b":x", b":Bogus_Tag_9")]
    elif cls == "surplus-string":
        out = [(i, t) for i in range(1, n) if toks[i] in (b";", b"{")
               for t in (b'"surplus"', "\"D\u00e9p\u00f4t l\u00e9gal \u20ac\"".encode("utf-8"), b'"a\\"b\\\\c"', "\"\u65e5\u672c\u8a9e\"".encode("utf-8"), b'""')]
    elif cls == "surplus-number":
        out = [(i, t) for i in range(1, n) if toks[i] in (b";", b"{") for t in (b"42K", b"0", b"7g", b"1234567890")]
    elif cls == "test-as-command":
        out = [(i, t) for i in cmdstart for t in (b"true", b"header", b"exists", b"NOT")]
    elif cls == "nontest-as-test":
        out = [(i, t) for i in testpos for t in (b"keep", b"stop", b"if", b"redirect", b"Require")]
    return out


def linecol(prefix):
    line = prefix.count(b"\n") + 1
    col = len(prefix) - (prefix.rfind(b"\n") + 1) + 1
    return line, col


def offset_of(text, pos):
    """byte offset of (line, col)"""
    line, col = pos[0], pos[1]
    off = 0
    for _ in range(line - 1):
        k = text.find(b"\n", off)
        if k < 0:
            return len(text) + 1
        off = k + 1
    return off + col - 1


# what a long-lived Parser has parsed before the script under test: one rejected and
# one accepted script whose lines start at other offsets (README usage: one Parser,
# many scripts)
DECOYS = [b"# one\r\n# two\n\n   keep;\n\tstop @\n\n\n", b"keep;\n\n\n\n"]


def reused_outcome(text):
    p = impl.Parser()
    for d in DECOYS:
        impl.parse_outcome(d, parser=p)
    return impl.parse_outcome(text, parser=p)


def history_dependence(text, o, label):
    """The same script given to a Parser that has parsed other scripts before."""
    o2 = reused_outcome(text)
    if o2.exc is None and o.exc is None and o2.verdict is False and o.verdict is False and (o2.error_pos != o.error_pos or o2.error != o.error):
        return [("%s|position-depends-on-what-the-parser-parsed-before" % label,
                 {"text": text, "fresh_parser": o.summary(), "parser_that_parsed_other_scripts_before": o2.summary(), "earlier_scripts": DECOYS})]
    return []


def check_a(prefix, tok, rest, tails, cls):
    """-> list of (bucket, detail)."""
    text = prefix + tok + rest
    L, C = linecol(prefix)
    o = impl.parse_outcome(text)
    out = history_dependence(text, o, "A|%s" % cls)
    base = {"text": text, "class": cls, "token": tok, "expected": [L, C, len(tok)], "impl": o.summary()}
    if o.exc is not None:
        return out  # C02
    if o.verdict is not False:
        return out  # C01
    ep = o.error_pos
    if not (isinstance(ep, tuple) and len(ep) == 3):
        return out  # C02
    if not (o.error or "").startswith("line %d:" % L):
        out.append(("A|%s|error-line" % cls, base))
    if tuple(ep[:2]) != (L, C):
        out.append(("A|%s|error_pos-line-col" % cls, base))
    elif cls != "junk" and ep[2] != len(tok):
        out.append(("A|%s|error_pos-length" % cls, base))
    for tail in tails:
        if tok.startswith(b'"') and b'"' in tail:
            # the tail would close the unterminated string: a different token, not a different tail
            continue
        t2 = prefix + tok + tail
        o2 = impl.parse_outcome(t2)
        if o2.exc is not None or o2.verdict is not False:
            continue
        if (o2.error_pos[:2] != ep[:2]) if cls == "junk" else (o2.error_pos != ep):
            d = dict(base)
            d["tail"] = tail
            d["with_tail"] = o2.summary()
            out.append(("A|%s|position-depends-on-tail" % cls, d))
            break
    return out


def a_worker(arg):
    sd, n, depth = arg
    col = core.Collector()

    @pspace.hyp_settings(n)
    @hseed(sd)
    @given(st.data())
    def body(data):
        toks = data.draw(S.valid_script(hostile=True, maxdepth=depth, maxcmds=4, mincmds=2))
        exts = loaded_exts(toks)
        for cls in CLASSES:
            cands = candidates(toks, cls, exts)
            if not cands:
                col.notes["no-candidate:" + cls] += 1
                continue
            i, tok = data.draw(st.sampled_from(cands))
            if tok is None:
                tok = data.draw(st.sampled_from(JUNK))
            if i == 0:
                prefix = data.draw(st.sampled_from([b"", b"\n", b"# \xc3\xa9\r\n", b"/* c */ ", b"\r\n\r\n  "]))
            else:
                glued = cls == "junk" and data.draw(st.integers(0, 2)) == 0
                prefix = data.draw(S.layout(toks[:i]))
                if prefix.endswith((b" # end", b" /* end */")):
                    prefix += b"\n"
                elif not glued:
                    prefix += data.draw(st.sampled_from(PRE_SEPS))
                else:
                    # no separator: the bytes that are no token follow the previous token directly (the
                    # reference lexer below confirms that they still start at this offset)
                    col.classes["A:junk-glued"] += 1
                if prefix.endswith((b" # end", b" /* end */")):
                    prefix += b"\n"
            restsep = data.draw(st.sampled_from([b" ", b"\n", b"\r\n", b"\t"]))
            rest = restsep + (S.canonical(toks[i:]) if i < len(toks) else b"")
            text = prefix + tok + rest
            r = analyze(text)
            off = len(prefix)
            ok = (r.verdict == INVALID and r.bad is not None and r.bad < r.ntok and r.tokens[r.bad].off == off
                  and r.reason in REASONS[cls])
            if cls == "junk" and ok:
                ok = r.tokens[r.bad].text.startswith(tok[:1])
            if not ok:
                col.notes["discard:" + cls] += 1
                continue
            tails = [data.draw(st.sampled_from(TAILS)) for _ in range(2)]
            L, C = linecol(prefix)
            before = prefix
            nt = L >= 2 and (any(b > 127 for b in before) or b"#" in before or b"/*" in before)
            classes = ["A", "A:" + cls, "crlf" if b"\r\n" in before else "lf"]
            if any(b > 127 for b in before):
                classes.append("multibyte-before")
            sample = None
            if nt and col.evals % 101 == 0:
                sample = {"class": cls, "text": text, "token": tok, "expected_pos": [L, C, len(tok)]}
            col.case(key=text, nontrivial=nt, classes=classes, sample=sample)
            for b, d in check_a(prefix, tok, rest, tails, cls):
                col.fail(b, {"kind": "A", "prefix": prefix, "token": tok, "rest": rest, "tails": tails, "class": cls}, d)

    body()
    return col


def check_b(text, tails):
    r = analyze(text)
    if r.verdict != INVALID:
        return None, []
    o = impl.parse_outcome(text)
    if o.exc is not None or o.verdict is not False:
        return r, []
    ep = o.error_pos
    if not (isinstance(ep, tuple) and len(ep) == 3):
        return r, []
    out = history_dependence(text, o, "B")
    got = offset_of(text, ep)
    if r.bad < r.ntok:
        first = r.tokens[r.bad].off
    else:
        first = r.tokens[-1].off if r.tokens else 0
    if got < first:
        out.append(("B|reported-before-first-offending-token|reason=%s" % r.reason,
                    {"text": text, "first_offending_offset": first, "reported_offset": got, "impl": o.summary(), "reason": r.reason}))
    # tail independence relative to the token at the reported position
    tk = None
    for t in r.tokens:
        if t.off == got:
            tk = t
            break
    if tk is not None:
        head = text[: tk.off + tk.length]
        for tail in tails:
            o2 = impl.parse_outcome(head + tail)
            if o2.exc is not None or o2.verdict is not False:
                continue
            if o2.error_pos != ep and offset_of(head + tail, o2.error_pos) != got:
                out.append(("B|position-depends-on-tail|reason=%s" % r.reason,
                            {"text": text, "tail": tail, "impl": o.summary(), "with_tail": o2.summary()}))
                break
    return r, out


def b_worker(arg):
    sd, n, depth = arg
    col = core.Collector()

    @pspace.hyp_settings(n)
    @hseed(sd)
    @given(st.data())
    def body(data):
        toks = data.draw(S.valid_script(hostile=True, maxdepth=depth, maxcmds=3))
        for _ in range(5):
            kind, mt = data.draw(S.mutate(toks))
            if kind == "noop":
                continue
            text = data.draw(S.layout(mt))
            tails = [data.draw(st.sampled_from(TAILS))]
            r, fails = check_b(text, tails)
            if r is None:
                col.case(classes=("B:not-invalid",))
                continue
            nt = b"\n" in text
            sample = None
            if nt and col.evals % 257 == 0:
                sample = {"class": "B", "text": text, "reason": r.reason}
            col.case(key=text, nontrivial=nt, classes=("B", "B:" + r.reason), sample=sample)
            for b, d in fails:
                col.fail(b, {"kind": "B", "text": text, "tails": tails}, d)

    body()
    return col


def worker(arg):
    return a_worker(arg[1]) if arg[0] == "A" else b_worker(arg[1])


def replay(case):
    if case["kind"] == "A":
        return check_a(case["prefix"], case["token"], case["rest"], case["tails"], case["class"])
    _, fails = check_b(case["text"], case["tails"])
    return fails


def main(tier, seed, t0):
    quick = tier == "quick"
    n = 120 if quick else 2500
    shards = [("A", (seed * 1000 + 500 + k, n, 3 if quick else 5)) for k in range(12)]
    shards += [("B", (seed * 1000 + 550 + k, n, 3)) for k in range(4)]
    col = core.run_shards(worker, shards)
    need = ["A:" + c for c in CLASSES] + ["B", "crlf", "lf", "multibyte-before"]
    missing = [c for c in need if not col.classes.get(c)]
    if missing:
        raise core.HarnessError("generator classes empty: %s (notes %s)" % (missing, dict(col.notes)))
    disc = sum(v for k, v in col.notes.items() if k.startswith("discard:"))
    if disc > 3 * col.classes.get("A", 0):
        raise core.HarnessError("too many class-A constructions discarded: %d vs %d kept" % (disc, col.classes.get("A", 0)))
    col.exhaustive = False
    return core.finish(PROP, tier, seed, "exploration", col, RULE, t0, sys.modules[MOD],
                       assumptions=["class membership of the inserted token is confirmed by the reference recogniser (vf/refsieve)",
                                    "'no reported position depends on what follows' is checked relative to the inserted token (class A) and to the "
                                    "token at the reported position (class B)"])
