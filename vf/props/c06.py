"""C06 - Every script the filter factory generates is valid and self-sufficient."""

import collections
import sys

from hypothesis import given, seed as hseed, strategies as st

from .. import core, impl, pspace, fsmodel
from ..refsieve import analyze, lex, parse_generic, string_value, VALID
from ..gen import filters as F
from . import c07

PROP = "C06"
MOD = __name__

RULE = ("Hypothesis filter definitions over the documented condition kinds (header fallback, exists, size, envelope, address, "
        "body, currentdate, true/false; :not forms) and action kinds (fileinto/redirect with :copy/:create/:flags, reject, keep, "
        "discard, stop, setflag/addflag/removeflag, vacation with its tags) with string/list values over a hostile alphabet, "
        "alone and in sets reached by histories of add/update/replace/disable/enable/move/remove; oracle: Parser accepts, "
        "reference recogniser in strict mode says VALID, leading require covers every extension used (frozen table walk), "
        "token skeleton equals the skeleton of the same definition with benign placeholder values, multiset of decoded string "
        "literals equals the supplied values; histories are rendered and judged after every operation. Non-trivial = a value with a hostile character, an extension-bearing tag or a "
        "list-valued action argument; distinct by definition/history.")

HOSTILE_CH = set('"\\,[](){};#\n\r$:') | set("é€😀")


def skeleton(text):
    lx = lex(text)
    return [("S" if t.kind in ("str", "mls") else t.text.lower().decode("latin-1")) for t in lx.tokens]


def literals(text):
    """decoded string literal contents outside require commands"""
    lx = lex(text)
    out = []
    in_req = False
    for t in lx.tokens:
        if t.kind == "ident":
            in_req = t.text.lower() == b"require"
        elif t.kind == ";":
            in_req = False
        elif t.kind in ("str", "mls") and not in_req:
            out.append(string_value(t))
    return out


def check_text(text, what):
    """Oracles 1-3 on a rendered set. -> list of (bucket, detail)"""
    out = []
    data = text.encode("utf-8")
    o = impl.parse_outcome(data)
    if o.exc is not None:
        out.append(("parser-raises|" + o.exc, {"text": text, "exc": o.exc_msg}))
        return out
    if o.verdict is not True:
        out.append(("output-rejected-by-parser", {"text": text, "error": o.error}))
    r = analyze(data, strict=True)
    if r.verdict != VALID:
        tokd = r.tokens[r.bad].text.decode("utf-8", "replace")[:30] if r.bad is not None and r.bad < r.ntok else "EOF"
        if r.reason and "extension-not-loaded" in r.reason:
            pass  # reported below with the precise construct
        else:
            out.append(("not-strictly-valid|%s" % (r.reason,), {"text": text, "reference": repr(r), "at": tokd}))
    nodes, consumed, err = parse_generic(r.tokens)
    if err is None:
        uses = []
        c07.walk_uses(nodes, set(), uses)
        used = []
        for w, ext, missing, pos in uses:
            if ext not in used:
                used.append(ext)
        loaded = set()
        first_is_require = bool(nodes) and nodes[0][0] == b"require"
        for n in nodes:
            if n[0] == b"require":
                for a in n[1]:
                    vals = [a[1]] if a[0] == "str" else list(a[1]) if a[0] == "list" else []
                    loaded |= {string_value(v).decode("utf-8", "replace") for v in vals}
        miss = [e for e in used if e not in loaded]
        if miss:
            w = [u[0] for u in uses if u[1] == miss[0]][0]
            out.append(("require-missing|%s|construct=%s" % (miss[0], w), {"text": text, "missing": miss}))
        elif used and not first_is_require:
            out.append(("require-not-first", {"text": text}))
    return out


def check_definition(defn):
    """Oracles 1-5 for a single definition in a fresh set."""
    try:
        fs = fsmodel.new_set()
        fs.addfilter("f", defn["conditions"], defn["actions"], defn["matchtype"])
        text = str(fs)
    except Exception as e:  # noqa: BLE001
        return [("factory-raises|" + impl.exc_bucket(e), {"definition": defn, "exc": repr(e)[:200]})], None
    out = []
    for b, d in check_text(text, "single"):
        d = dict(d)
        d["definition"] = defn
        out.append((b, d))
    # 4. structure independence
    try:
        fs2 = fsmodel.new_set()
        d2 = F.substitute(defn, lambda v: "v")
        fs2.addfilter("f", d2["conditions"], d2["actions"], d2["matchtype"])
        text2 = str(fs2)
        sk1, sk2 = skeleton(text.encode("utf-8")), skeleton(text2.encode("utf-8"))
        if sk1 != sk2:
            out.append(("structure-depends-on-values", {"definition": defn, "text": text, "text_with_placeholders": text2}))
        else:
            # 5. literal multiset
            got = collections.Counter(literals(text.encode("utf-8")))
            exp = collections.Counter(v.encode("utf-8") for v in F.user_values(defn))
            if got != exp:
                missing = list((exp - got).elements())[:3]
                extra = list((got - exp).elements())[:3]
                out.append(("string-literals-differ-from-values", {"definition": defn, "text": text, "missing": missing, "unexpected": extra}))
    except Exception as e:  # noqa: BLE001
        out.append(("factory-raises-on-placeholders|" + impl.exc_bucket(e), {"definition": defn, "exc": repr(e)[:200]}))
    return out, text


def nontrivial_def(defn):
    vals = F.user_values(defn)
    if any(set(v) & HOSTILE_CH for v in vals):
        return True
    for a in defn["actions"]:
        if any(isinstance(x, list) for x in a[1:]) or any(x in (":copy", ":create", ":flags", ":seconds") for x in a[1:] if isinstance(x, str)):
            return True
    return False


def def_classes(defn):
    cl = []
    for c in defn["conditions"]:
        h = c[0]
        cl.append("cond:" + (h if isinstance(h, str) and h.replace("not", "", 1) in F.SPECIAL else "header"))
    for a in defn["actions"]:
        cl.append("act:" + a[0])
        for x in a[1:]:
            if isinstance(x, str) and x.startswith(":"):
                cl.append("acttag:" + x)
            if isinstance(x, list):
                cl.append("act-list-arg")
    return cl


def defs_worker(arg):
    sd, n = arg
    col = core.Collector()

    @pspace.hyp_settings(n)
    @hseed(sd)
    @given(F.definition(F.HOSTILE))
    def body(defn):
        fails, text = check_definition(defn)
        nt = nontrivial_def(defn)
        sample = None
        if nt and col.evals % 97 == 0:
            sample = {"definition": defn, "text": text}
        col.case(key=repr(defn), nontrivial=nt, classes=["kind:definition"] + def_classes(defn), sample=sample)
        for b, d in fails:
            col.fail(b, {"kind": "definition", "definition": defn}, d)

    body()
    return col


NAMES = ["n1", "n2", "n3"]


@st.composite
def history(draw, alphabet, maxops=8, npool=4):
    defs = [draw(F.definition(alphabet)) for _ in range(npool)]
    ops = []
    for _ in range(draw(st.integers(1, maxops))):
        k = draw(st.sampled_from(["add", "add", "add", "update", "replace", "remove", "enable", "disable", "disable", "move"]))
        op = {"op": k, "name": draw(st.sampled_from(NAMES))}
        if k in ("add", "update", "replace"):
            op["def"] = draw(st.integers(0, npool - 1))
        if k == "update":
            op["newname"] = draw(st.sampled_from(NAMES))
        if k == "replace":
            op["newname"] = draw(st.sampled_from(NAMES + [None]))
            op["description"] = draw(st.sampled_from([None, "a description", "descr é"]))
        if k == "move":
            op["dir"] = draw(st.sampled_from(["up", "down"]))
        ops.append(op)
    return {"defs": defs, "ops": ops}


def run_history(h):
    fs = fsmodel.new_set()
    for op in h["ops"]:
        fsmodel.apply_op(fs, op, h["defs"])
    return fs


def check_history(h):
    """The set is rendered after every operation (a program that saves after each
    edit), not only at the end: each rendering has to be valid and self-sufficient."""
    fs = fsmodel.new_set()
    text = None
    for i, op in enumerate(h["ops"]):
        try:
            fsmodel.apply_op(fs, op, h["defs"])
            text = str(fs)
        except Exception as e:  # noqa: BLE001
            return [("factory-raises|" + impl.exc_bucket(e), {"history": h, "exc": repr(e)[:200], "at_op": i})], None
        last = i == len(h["ops"]) - 1
        out = []
        for b, d in check_text(text, "history"):
            d = dict(d)
            d["ops"] = h["ops"]
            d["at_op"] = i
            out.append(("history|" + b if last else "history|intermediate-rendering|" + b, d))
        if out:
            return out, text
    return [], text


def hist_worker(arg):
    sd, n = arg
    col = core.Collector()

    # values are benign here so that the known quoting problems of single
    # definitions do not mask history-specific ones; hostile values are the
    # business of the definition part
    @pspace.hyp_settings(n)
    @hseed(sd)
    @given(history(F.MILD))
    def body(h):
        fails, text = check_history(h)
        kinds = {op["op"] for op in h["ops"]}
        nt = len(kinds) >= 2
        sample = None
        if nt and col.evals % 53 == 0:
            sample = {"ops": h["ops"], "text": text}
        col.case(key=repr(h), nontrivial=nt, classes=["kind:history"] + ["op:" + k for k in kinds], sample=sample)
        for b, d in fails:
            col.fail(b, {"kind": "history", "history": h}, d)

    body()
    return col


def worker(arg):
    return defs_worker(arg[1]) if arg[0] == "defs" else hist_worker(arg[1])


def replay(case):
    if case["kind"] == "definition":
        d = fix_def(case["definition"])
        fails, _ = check_definition(d)
        return fails
    h = case["history"]
    h = {"defs": [fix_def(d) for d in h["defs"]], "ops": h["ops"]}
    fails, _ = check_history(h)
    return fails


def fix_def(d):
    """JSON turns tuples into lists: restore tuples for conditions/actions."""
    def fix_c(c):
        return tuple(c)
    return {"conditions": [fix_c(c) for c in d["conditions"]], "actions": [tuple(a) for a in d["actions"]],
            "matchtype": d["matchtype"]}


def shrink(case, bucket, budget):
    if case["kind"] != "definition":
        h = case["history"]

        def still(ops):
            c = {"kind": "history", "history": {"defs": h["defs"], "ops": ops}}
            return any(b == bucket for b, _ in replay(c))

        ops = core.ddmin(h["ops"], still, budget)
        return {"kind": "history", "history": {"defs": h["defs"], "ops": ops}}
    d = fix_def(case["definition"])

    def still_c(conds):
        c = {"kind": "definition", "definition": {"conditions": conds, "actions": d["actions"], "matchtype": d["matchtype"]}}
        return bool(conds) and any(b == bucket for b, _ in replay(c))

    conds = core.ddmin(d["conditions"], still_c, budget / 2) if len(d["conditions"]) > 1 else d["conditions"]

    def still_a(acts):
        c = {"kind": "definition", "definition": {"conditions": conds, "actions": acts, "matchtype": d["matchtype"]}}
        return any(b == bucket for b, _ in replay(c))

    acts = d["actions"]
    if acts and still_a([]):
        acts = []
    elif len(acts) > 1:
        acts = core.ddmin(acts, still_a, budget / 2)
    return {"kind": "definition", "definition": {"conditions": conds, "actions": acts, "matchtype": d["matchtype"]}}


def main(tier, seed, t0):
    quick = tier == "quick"
    shards = [("defs", (seed * 1000 + 700 + k, 600 if quick else 6000)) for k in range(12)]
    shards += [("hist", (seed * 1000 + 750 + k, 300 if quick else 3000)) for k in range(4)]
    col = core.run_shards(worker, shards)
    need = ["kind:definition", "kind:history", "cond:header", "cond:exists", "cond:size", "cond:envelope", "cond:address",
            "cond:body", "cond:currentdate", "cond:true", "act:fileinto", "act:redirect", "act:reject", "act:keep",
            "act:vacation", "act:setflag", "acttag::copy", "acttag::create", "acttag::flags", "acttag::seconds", "act-list-arg",
            "op:disable", "op:replace", "op:move"]
    missing = [c for c in need if not col.classes.get(c)]
    if missing:
        raise core.HarnessError("generator classes empty: %s" % missing)
    col.exhaustive = False
    return core.finish(PROP, tier, seed, "exploration", col, RULE, t0, sys.modules[MOD],
                       assumptions=["implicit preconditions of the factory API are respected by the generator: non-empty condition list, values not "
                                    "starting with a quote character (documented) or ':' (read as a tag by the API), header names not starting with 'not' "
                                    "and not equal to a special condition name, currentdate without :count",
                                    "strict validity is decided by vf/refsieve in strict mode"])
