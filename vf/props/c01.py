"""C01 - Parser accepts exactly the valid scripts of its supported language."""

import base64
import json
import os

from hypothesis import given, seed as hseed, strategies as st

from .. import core, impl, pspace
from ..refsieve import analyze, lex, TABLE, VALID, INVALID, UNSPEC
from ..gen import tokens as T
from ..gen import scripts as S

PROP = "C01"
MOD = __name__

RULE = ("exhaustive token sequences over a %d-token vocabulary (blind to length Lb, viable-prefix-guided "
        "'prefix + one token' to length Lg), Hypothesis grammar-directed valid scripts, their single-edit "
        "token mutants and layout variants, and generated scripts with one near-white-space character (NBSP, NEL, U+2028, "
        "U+3000, FS..US, BOM, ...) at a token boundary given to parse() both as bytes and as str; oracle = independent reference recogniser (VALID/INVALID/UNSPEC) "
        "plus verdict equality across layouts. A case is non-trivial when the reference consumed >= 3 tokens "
        "before deciding; distinct by source text." % len(T.FULL))


def tok_desc(toks, i):
    if i is None or i >= len(toks):
        return "EOF"
    t = toks[i]
    if t.kind == "tag":
        return t.text.lower().decode("latin-1")
    if t.kind == "ident":
        n = t.text.lower()
        return n.decode("latin-1") if n in TABLE else "ident"
    return t.kind


def enclosing(toks, i):
    if i is None:
        return "-"
    j = min(i, len(toks)) - 1
    while j >= 0:
        if toks[j].kind == "ident":
            n = toks[j].text.lower()
            return n.decode("latin-1") if n in TABLE else "ident"
        j -= 1
    return "-"


def tok_at(toks, pos):
    """index of the reference token starting at (line, col) or None."""
    if not pos:
        return None
    for i, t in enumerate(toks):
        if t.line == pos[0] and t.col == pos[1]:
            return i
    return None


def classify(text, r, o):
    """Return (bucket, detail) or None."""
    if o.exc is not None:
        return None
    if r.verdict == VALID and o.verdict is not True:
        i = tok_at(r.tokens, o.error_pos)
        b = "valid-rejected|cmd=%s|tok=%s" % (enclosing(r.tokens, i), tok_desc(r.tokens, i) if i is not None else "?")
        return b, {"text": text, "ref": "VALID", "impl": o.summary()}
    if r.verdict == INVALID and o.verdict is not False:
        b = "invalid-accepted|reason=%s|cmd=%s|tok=%s" % (r.reason, enclosing(r.tokens, r.bad), tok_desc(r.tokens, r.bad))
        return b, {"text": text, "ref": "INVALID:" + r.reason, "bad_token": r.bad, "impl": o.summary()}
    return None


def judge(text, meta, col):
    r = meta.get("ref") or analyze(text)
    src = meta["src"]
    if src == "layout":
        if r.lex_unspec:
            # the token sequence itself is not pinned down (e.g. 'text:' that does
            # not start a well-formed multi-line block): "the same script in
            # another layout" is not defined for such input
            col.notes["layout-skipped(lexically-unspecified)"] += 1
            return
        o0 = impl.parse_outcome(text)
        for v in meta["variants"]:
            rv = analyze(v)
            ov = impl.parse_outcome(v)
            nt = r.ntok >= 3
            col.case(key=v, nontrivial=nt, classes=("src:layout", "layout-ref:" + r.verdict,
                                                    "layout:crlf" if b"\r\n" in v else "layout:lf",
                                                    "layout:comment" if (b"#" in v or b"/*" in v) else "layout:nocomment"))
            if rv.verdict != r.verdict or [t.text.lower() if t.kind in ("ident", "tag") else t.text.rstrip(b"\r\n") if t.kind == "mls" else t.text for t in rv.tokens] != \
                    [t.text.lower() if t.kind in ("ident", "tag") else t.text.rstrip(b"\r\n") if t.kind == "mls" else t.text for t in r.tokens]:
                # the layout generator changed the token sequence: harness problem, not a finding
                if not any(t.kind == "mls" for t in r.tokens):
                    col.notes["layout-generator-changed-tokens"] += 1
                continue
            if o0.exc is None and ov.exc is None and ov.verdict != o0.verdict:
                b = "layout-sensitive|ref=%s|canonical=%s|variant=%s" % (r.verdict, o0.verdict, ov.verdict)
                col.fail(b, {"text": v, "canonical": text}, {"canonical": o0.summary(), "variant": ov.summary()})
            else:
                c = classify(v, rv, ov)
                if c:
                    col.fail(c[0], {"text": v}, c[1])
        return
    o = impl.parse_outcome(text)
    consumed = r.ntok if r.bad is None else r.bad + 1
    nt = consumed >= 3
    classes = ["src:" + src, "ref:" + r.verdict]
    if r.verdict == INVALID:
        classes.append("reason:" + r.reason)
    if r.verdict == VALID:
        classes.extend("valid:" + f for f in r.features)
        if r.maxdepth >= 2:
            classes.append("valid:nesting>=2")
    if o.exc is not None:
        col.notes["no-verdict(" + o.exc + ")"] += 1
    sample = None
    if nt and col.evals % 997 == 0:
        sample = {"text": text, "ref": r.verdict, "reason": r.reason, "impl": o.verdict, "src": src}
    col.case(key=None if src in ("blind", "guided") else text, nontrivial=nt, classes=classes, sample=sample)
    c = classify(text, r, o)
    if c:
        col.fail(c[0], {"text": text}, c[1])


# Characters that some notion of "white space" includes but Sieve's does not
# (RFC 5228 2.3: SP, HTAB, CRLF).  Python's str patterns take most of them for
# \s, bytes patterns only FF and VT (which the reference leaves UNSPEC).
ODD_SPACES = ["\x1c", "\x1d", "\x1e", "\x1f", "\x85", "\xa0", "\u1680", "\u2000", "\u2003", "\u200a", "\u2028",
              "\u2029", "\u202f", "\u205f", "\u3000", "\ufeff", "\u200b", "\x0b", "\x0c", "\u00ad", "\u0660", "\uff1b"]


def sep_worker(arg):
    """Generated valid scripts with one near-white-space character put at a
    token boundary, each given to parse() as bytes and as str."""
    sd, n, depth = arg
    col = core.Collector()

    @pspace.hyp_settings(n)
    @hseed(sd)
    @given(st.data())
    def body(data):
        toks = data.draw(S.valid_script(hostile=True, maxdepth=depth, maxcmds=3))
        i = data.draw(st.integers(0, len(toks)))
        ch = data.draw(st.sampled_from(ODD_SPACES))
        mode = data.draw(st.integers(0, 3))
        mid = [ch, ch + " ", " " + ch, "\r\n" + ch][mode].encode("utf-8")
        left, right = S.canonical(toks[:i]), S.canonical(toks[i:])
        text = left + mid + right
        r = analyze(text)
        try:
            astext = text.decode("utf-8")
        except UnicodeDecodeError:
            astext = None
        for form in ("bytes", "str"):
            if form == "str" and astext is None:
                continue
            o = impl.parse_outcome(text if form == "bytes" else astext)
            sample = None
            if col.evals % 499 == 0:
                sample = {"text": text, "form": form, "ref": r.verdict, "impl": o.verdict, "src": "oddspace"}
            col.case(key=form.encode() + b":" + text, nontrivial=True, classes=["src:oddspace", "form:" + form, "ref:" + r.verdict,
                                                                 "oddspace:U+%04X" % ord(ch)], sample=sample)
            c = classify(text, r, o)
            if c:
                col.fail(c[0] + ("|input=str" if form == "str" else ""), {"text": text, "form": form}, c[1])

    body()
    return col


def replay(case):
    text = case["text"]
    out = []
    r = analyze(text)
    if case.get("form") == "str":
        o = impl.parse_outcome(text.decode("utf-8"))
        c = classify(text, r, o)
        return [(c[0] + "|input=str", c[1])] if c else []
    o = impl.parse_outcome(text)
    c = classify(text, r, o)
    if c:
        out.append(c)
    if "canonical" in case:
        o0 = impl.parse_outcome(case["canonical"])
        r0 = analyze(case["canonical"])
        if not r0.lex_unspec and o0.exc is None and o.exc is None and o0.verdict != o.verdict:
            out.append(("layout-sensitive|ref=%s|canonical=%s|variant=%s" % (r0.verdict, o0.verdict, o.verdict),
                        {"canonical": o0.summary(), "variant": o.summary()}))
    return out


def shrink(case, bucket, budget):
    text = case["text"]
    toks = [t.text + (b"\n" if t.kind == "mls" else b"") for t in lex(text).tokens]
    if "canonical" in case or case.get("form") == "str":
        return None

    def still(ts):
        return any(b == bucket for b, _ in replay({"text": b" ".join(ts)}))

    if not still(toks):
        return None
    small = core.ddmin(toks, still, budget)
    return {"text": b" ".join(small)}


def selftest():
    """The reference must reproduce the verdicts pinned by the repository's
    test suite (frozen copy), answering UNSPEC at most where the claim is
    explicitly open - never the opposite verdict."""
    pins = json.load(open(os.path.join(core.ROOT, "corpus", "pinned.json")))
    n_unspec = 0
    for p in pins:
        s = base64.b64decode(p["b64"])
        if b"mytest" in s or b"quota_notification" in s:
            continue
        r = analyze(s)
        exp = VALID if p["verdict"] else INVALID
        if r.verdict == UNSPEC:
            n_unspec += 1
            continue
        if r.verdict != exp:
            raise core.HarnessError("reference disagrees with pinned verdict: %r -> %s (pinned %s)" % (s[:80], r, exp))
    if n_unspec > 6:
        raise core.HarnessError("reference answers UNSPEC on %d pinned scripts" % n_unspec)


REQUIRED_CLASSES = ["ref:VALID", "ref:INVALID", "ref:UNSPEC", "src:blind", "src:guided", "src:gen", "src:mutant",
                    "src:layout", "valid:tag", "valid:list", "valid:multiline", "valid:nesting>=2",
                    "valid:uppercase-ident", "valid:uppercase-tag", "layout:crlf", "layout:comment",
                    "reason:lexical", "reason:bracket", "reason:missing-semicolon", "reason:empty-list",
                    "reason:unknown-command", "reason:wrong-role", "reason:block-after-action",
                    "reason:misplaced-elsif-else", "reason:unknown-tag", "reason:ill-typed", "reason:surplus",
                    "reason:bad-tag-value", "reason:extension-not-loaded", "reason:eof-incomplete"]


def main(tier, seed, t0):
    selftest()
    col = pspace.run(MOD, tier, seed)
    quick = tier == "quick"
    col.merge(core.run_shards(sep_worker, [(seed * 1000 + 700 + k, 150 if quick else 2500, 3 if quick else 5) for k in range(16)]))
    missing = [c for c in REQUIRED_CLASSES + ["src:oddspace", "form:str", "form:bytes"] if not col.classes.get(c)]
    if missing:
        raise core.HarnessError("generator classes empty: %s" % missing)
    b = pspace.BOUNDS[tier]
    col.exhaustive = False
    return core.finish(PROP, tier, seed, "exploration", col, RULE, t0, __import__(MOD, fromlist=["x"]),
                       assumptions=["reference recogniser vf/refsieve (frozen command table transcribed from the RFCs/README) "
                                    "is the definition of the supported language; UNSPEC inputs carry no verdict claim",
                                    "tokens are separated by single spaces in the exhaustive parts"],
                       extra={"bounds": {"blind_len": b["blind"], "guided_len": b["guided"],
                                         "generated_scripts": b["gen"] * b["genshards"], "vocabulary": len(T.FULL)},
                              "exhaustive_parts": "blind and guided enumerations are complete up to the stated lengths"})
