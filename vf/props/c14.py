"""C14 - Emulated rename never loses or overwrites a script."""

import itertools
import sys

from .. import core
from ..msref import wire
from ..msref.server import RefServer, ListChooser
from ..msref.transport import Session

PROP = "C14"
MOD = __name__

RULE = ("exhaustive product: old name {absent, present, active} x new name {absent, present, active, same as old} x bystander "
        "{none, one, one active} x fault step {none, LISTSCRIPTS, GETSCRIPT, PUTSCRIPT, SETACTIVE, DELETESCRIPT} x fault kind "
        "{NO, BYE, silence; NO with a response code (QUOTA*, ACTIVE, NONEXISTENT, ALREADYEXISTS, TRYLATER) once or persisting for every later command of that kind} x script bodies {LF, CRLF, no final newline, empty, non-ASCII, protocol look-alike, Unicode line-break "
        "characters} x 3 reply-encoding patterns x plain / special-character / ACTIVE-look-alike names x unsegmented / one-byte recv() x bystander listed "
        "before / after, plus every single cut in the first 160 reply bytes for the fault-free states, against the reference ManageSieve server without VERSION (infeasible combinations with two active scripts "
        "skipped); oracle on the server's store before/after. Non-trivial = a fault is injected or the new name pre-exists.")

BODIES = {
    "lf": b"require \"fileinto\";\nfileinto \"a\";\n",
    "crlf": b"require \"fileinto\";\r\nfileinto \"a\";\r\n",
    "nofinal": b"keep;",
    "empty": b"",
    "nonascii": "# résumé €\r\nkeep;\r\n".encode("utf-8"),
    "lookalike": b"# first\r\nOK \"x\"\r\n{3}\r\nNO\r\nkeep;\r\n",
    "unicode-breaks": "# a\u2028b \x0c c \x85 d \x0b e \x1c f\r\nkeep;\r\n".encode("utf-8"),
}
NAMESETS = {
    "plain": (b"old-script", b"new-script", b"other"),
    "special": ('old "q\\s {3}'.encode("utf-8"), 'new\\b "x \u00e9'.encode("utf-8"), "by ACTIVE \u20ac".encode("utf-8")),
}
# names that merely look like the ACTIVE marker of a listing line
NAMESETS["activeish"] = (b"active_old", b"Active-new", b"ACTIVE")
NAMESETS["activeish2"] = (b"ACTIVE", b"active", b"old ACTIVE")
# names that a Unicode normalisation or a case folding would change or merge
NAMESETS["non-nfc"] = ("o\u0302ld".encode("utf-8"), "re\u0301pondeur".encode("utf-8"), "\u212bngstr\u00f6m".encode("utf-8"))
NAMESETS["new-non-nfc"] = (b"old-script", "re\u0301pondeur".encode("utf-8"), b"other")
# names spelled like a status reply
NAMESETS["statusish"] = (b"old", b"new", b"OK")
NAMESETS["statusish2"] = (b"NO", b"BYE", b"ok")
NAMESETS["statusish3"] = (b"OK", b"ok", b"No")
NAMESETS["case-twins"] = (b"Script", b"script", b"SCRIPT")
NAMESETS["blank-twins"] = (b"name", b"name ", b" name")
NAMESETS["new-special"] = (NAMESETS["plain"][0], NAMESETS["special"][1], NAMESETS["plain"][2])
NAMESETS["old-special"] = (NAMESETS["special"][0], NAMESETS["plain"][1], NAMESETS["special"][2])
OLD, NEW, BY = NAMESETS["plain"]
NEWBODY = b"# the pre-existing target\r\nstop;\r\n"
BYBODY = b"# bystander\r\ndiscard;\r\n"
STEPS = [None, b"LISTSCRIPTS", b"GETSCRIPT", b"PUTSCRIPT", b"SETACTIVE", b"DELETESCRIPT"]
KINDS = ["NO", "BYE", "SILENCE"]
# refusals that carry a response code and persist for every later command of the same kind
# (an account over quota, a script that stays active, ...)
CODED = [(b"PUTSCRIPT", "NO:QUOTA/MAXSIZE"), (b"PUTSCRIPT", "NO:QUOTA"), (b"PUTSCRIPT", "NO:QUOTA/MAXSCRIPTS"), (b"PUTSCRIPT", "NO:ALREADYEXISTS"),
         (b"DELETESCRIPT", "NO:ACTIVE"), (b"DELETESCRIPT", "NO:NONEXISTENT"), (b"SETACTIVE", "NO:NONEXISTENT"), (b"GETSCRIPT", "NO:NONEXISTENT"),
         (b"PUTSCRIPT", "NO:TRYLATER"), (b"LISTSCRIPTS", "NO:TRYLATER")]


def cases():
    for old, new, by, step, body, pat, names, cap, bypos in itertools.product(
            ["absent", "present", "active"], ["absent", "present", "active", "same"], ["none", "one", "active"],
            STEPS, sorted(BODIES), [0, 1, 2], sorted(NAMESETS), [None, 1], ["first", "last"]):
        actives = (old == "active") + (new == "active") + (by == "active")
        if actives > 1:
            continue
        if by == "none" and bypos == "last":
            continue
        for kind in (KINDS if step else [None]):
            yield {"old": old, "new": new, "by": by, "step": step, "kind": kind, "body": body, "pattern": pat,
                   "names": names, "cap": cap, "bypos": bypos}
    # coded refusals, first occurrence only / every occurrence
    for old, new, by, (step, kind), occ, body, names in itertools.product(
            ["present", "active"], ["absent", "present", "active", "same"], ["none", "one", "active"], CODED, [0, "*"],
            ["crlf", "nofinal", "lookalike"], sorted(NAMESETS)):
        if (old == "active") + (new == "active") + (by == "active") > 1:
            continue
        yield {"old": old, "new": new, "by": by, "step": step, "kind": kind, "occ": occ, "body": body, "pattern": 0,
               "names": names, "cap": None, "bypos": "first"}
    # every placement of a single cut in the first 160 bytes the server sends during the rename
    # (the listing and the beginning of the script), fault-free
    for old, new, by, bypos, pat, cut in itertools.product(["present", "active"], ["absent", "present", "active"], ["one", "active"],
                                                           ["first", "last"], [0, 1], range(1, 161)):
        if (old == "active") + (new == "active") + (by == "active") > 1:
            continue
        yield {"old": old, "new": new, "by": by, "step": None, "kind": None, "body": "crlf", "pattern": pat, "names": "plain",
               "cap": None, "bypos": bypos, "cut": cut}


def run_case(c):
    OLD, NEW, BY = NAMESETS[c.get("names", "plain")]
    scripts = []
    active = None
    if c["by"] != "none" and c.get("bypos", "first") == "first":
        scripts.append((BY, BYBODY))
    if c["old"] != "absent":
        scripts.append((OLD, BODIES[c["body"]]))
        if c["old"] == "active":
            active = OLD
    if c["by"] != "none" and c.get("bypos", "first") == "last":
        scripts.append((BY, BYBODY))
    if c["by"] == "active":
        active = BY
    newname = OLD if c["new"] == "same" else NEW
    if c["new"] in ("present", "active"):
        scripts.append((NEW, NEWBODY))
        if c["new"] == "active":
            active = NEW
    faults = [(c["step"], c.get("occ", 0), c["kind"])] if c["step"] else []
    pat = c["pattern"]
    chooser = ListChooser([pat] * 64)
    srv = RefServer({"version": False, "scripts": scripts, "active": active, "faults": faults}, chooser)
    s = Session(srv)
    r = s.call("connect", "user", "pass")
    if r != ("ret", True):
        raise core.HarnessError("could not connect to the reference server: %r" % (r,))
    before = srv.snapshot()
    s.sock.cap = c.get("cap")
    if c.get("cut"):
        s.sock.schedule = [c["cut"]]
    res = s.call("renamescript", OLD.decode("utf-8"), newname.decode("utf-8"))
    after = srv.snapshot()
    s.close()
    return before, res, after, srv, newname, (OLD, NEW, BY)


def judge(c):
    before, res, after, srv, newname, (OLD, NEW, BY) = run_case(c)
    fails = []
    b = dict(before["scripts"])
    a = dict(after["scripts"])
    det = {"case": c, "result": res, "before": core.jsonable(before), "after": core.jsonable(after),
           "commands": [cmd.verb.decode() for _, cmd in srv.log]}
    tag = "old=%s,new=%s" % (c["old"], c["new"])
    if not (res in (("ret", True), ("ret", False)) or (res[0] == "exc" and res[1] == "Error")):
        fails.append(("result-not-True/False/Error|%s|fault=%s/%s" % (res[1] if res[0] == "exc" else repr(res[1]), (c["step"] or b"-").decode(), c["kind"]), det))
    # every pre-existing script still exists with the same lines
    for name, lines in b.items():
        if name == OLD:
            ok = (a.get(OLD) == lines) or (a.get(newname) == lines and newname not in b) or (newname == OLD and a.get(OLD) == lines)
            if not ok:
                fails.append(("renamed-script-lost-or-changed|%s" % tag, det))
        else:
            if a.get(name) != lines:
                which = "existing-target" if name == NEW else "bystander"
                fails.append(("%s-overwritten-or-lost|%s" % (which, tag), det))
    if res == ("ret", True):
        if c["old"] == "absent":
            fails.append(("True-for-nonexistent-old|%s" % tag, det))
        elif newname != OLD:
            if OLD in a:
                fails.append(("True-but-old-name-still-there|%s" % tag, det))
            if a.get(newname) != b.get(OLD):
                fails.append(("True-but-new-name-lacks-old-content|%s" % tag, det))
            was_active = before["active"] == OLD
            if (after["active"] == newname) != was_active:
                fails.append(("True-but-active-status-not-carried|%s" % tag, det))
    if before["active"] is not None and before["active"] != OLD and after["active"] != before["active"]:
        fails.append(("active-pointer-of-another-script-changed|%s" % tag, det))
    if srv.violations:
        fails.append(("server-saw-protocol-violation|%s" % srv.violations[0][0], det))
    return fails


def worker(chunk):
    col = core.Collector()
    for c in chunk:
        fails = judge(c)
        nt = c["step"] is not None or c["new"] in ("present", "active", "same")
        sample = None
        if nt and col.evals % 199 == 0:
            sample = {"case": c}
        col.case(key=None, nontrivial=nt, classes=["old:" + c["old"], "new:" + c["new"], "by:" + c["by"],
                                                   "fault:%s/%s" % ((c["step"] or b"none").decode(), c["kind"])], sample=sample)
        seen = set()
        for b, d in fails:
            if b not in seen:
                seen.add(b)
                col.fail(b, {"case": c}, d)
    return col


def replay(case):
    c = dict(case["case"])
    return judge(c)


def main(tier, seed, t0):
    allc = list(cases())
    n = 64
    chunks = [allc[i::n] for i in range(n)]
    col = core.run_shards(worker, chunks)
    col.exhaustive = True
    return core.finish(PROP, tier, seed, "fault_enumeration", col, RULE, t0, sys.modules[MOD],
                       assumptions=["reference server vf/msref/server.py is the arbiter of what exists before/after; 'not at all' is modelled as a read timeout",
                                    "line endings are not compared (bodies compared line-wise, trailing blank lines ignored)"],
                       extra={"cases": len(allc)})
