"""C08 - Each client call puts exactly one well-formed command on the wire."""

import sys

from hypothesis import given, seed as hseed, strategies as st

from .. import core, pspace
from ..msref import wire
from ..msref.server import RefServer
from ..msref.transport import Session

PROP = "C08"
MOD = __name__

RULE = ("every public client operation x (a sweep of script sizes around 256 ... 65536 bytes so that the written command's total length hits every "
        "typical block size exactly) + Hypothesis argument text biased to double quotes, backslashes, CR, LF, NUL, braces, "
        "{n}/{n+} look-alikes, multi-byte characters, the empty string and long values; sizes over non-negative integers; server "
        "with and without VERSION (native and emulated rename); oracle: the bytes handed to sendall during the call, parsed by a "
        "strict RFC 5804 command parser, are exactly one command (a known sequence of single commands for the emulated rename) of "
        "the intended verb whose arguments decode to the caller's values (UTF-8), literal lengths = byte lengths, numbers unquoted "
        "- or the call raised managesieve.Error and wrote nothing. Non-trivial = an argument contains a character outside "
        "[A-Za-z0-9_. -] or is empty; distinct by (operation, arguments).")

PARTS = ['"', "\\", "\r", "\n", "\r\n", "\x00", "{", "}", "{5}", "{5+}", "{0+}", "é", "€", "😀", "", " ", "a", "b", "Z", "0", "_", ".",
         "-", "OK", "\t", "'", "(", ")", "x" * 40, "y" * 1500, "\\\"", "\udbff\udfff".encode("utf-16", "surrogatepass").decode("utf-16"), "\"\r\nLOGOUT\r\n", "script"]
OPS = ["havespace", "putscript", "checkscript", "deletescript", "renamescript", "setactive", "getscript", "listscripts", "capability"]
VERB = {"havespace": b"HAVESPACE", "putscript": b"PUTSCRIPT", "checkscript": b"CHECKSCRIPT", "deletescript": b"DELETESCRIPT",
        "renamescript": b"RENAMESCRIPT", "setactive": b"SETACTIVE", "getscript": b"GETSCRIPT", "listscripts": b"LISTSCRIPTS",
        "capability": b"CAPABILITY"}


def text():
    return st.one_of(st.lists(st.sampled_from(PARTS), min_size=0, max_size=4).map("".join), st.text(max_size=6))


def benign(s):
    return bool(s) and all(c.isalnum() or c in "_. -" for c in s) and s.isascii()


@st.composite
def call(draw):
    op = draw(st.sampled_from(OPS))
    if op == "havespace":
        args = (draw(text()), draw(st.one_of(st.integers(0, 10), st.integers(0, 2 ** 40))))
    elif op == "putscript":
        args = (draw(text()), draw(text()))
    elif op == "checkscript":
        args = (draw(text()),)
    elif op == "renamescript":
        args = (draw(text()), draw(text()))
    elif op in ("deletescript", "setactive", "getscript"):
        args = (draw(text()),)
    else:
        args = ()
    return op, args


def encodable(s):
    try:
        s.encode("utf-8")
        return True
    except UnicodeEncodeError:
        return False


def check_call(op, args, version):
    """-> list of (bucket, detail)"""
    srv = RefServer({"version": version, "scripts": [(b"existing", b"keep;\r\n")], "active": None})
    s = Session(srv)
    if s.call("connect", "user", "pass") != ("ret", True):
        raise core.HarnessError("connect to reference server failed")
    n0 = len(s.sock.writes)
    res = s.call(op, *args)
    written = b"".join(d for _, d in s.sock.writes[n0:])
    s.close()
    det = {"op": op, "args": list(args), "version": version, "written": written, "result": res}
    out = []
    if res[0] == "exc" and res[1] != "Error" and not (op == "checkscript" and not version and res[1].startswith("NotImplementedError")):
        out.append(("call-raises|%s|%s" % (op, res[1]), det))
        return out
    if res[0] == "exc" and res[1] == "Error" and not written:
        return out  # refused before writing anything: allowed
    if op == "checkscript" and not version:
        if written:
            out.append(("checkscript-written-without-VERSION", det))
        return out
    cmds, viol, left = wire.parse_all(written)
    if viol is not None:
        what = "unterminated" if viol == "incomplete command" else "malformed"
        out.append(("not-a-well-formed-command|%s|%s" % (op, what), dict(det, violation=viol)))
        return out
    emulated = op == "renamescript" and not version
    if emulated:
        # a sequence of single commands starting with LISTSCRIPTS; each already strictly parsed
        if not cmds or cmds[0].verb != b"LISTSCRIPTS":
            out.append(("emulated-rename-unexpected-sequence", dict(det, verbs=[c.verb for c in cmds])))
        allowed = [b"LISTSCRIPTS", b"GETSCRIPT", b"PUTSCRIPT", b"SETACTIVE", b"DELETESCRIPT"]
        if [c.verb for c in cmds] != allowed[: len(cmds)] and [c.verb for c in cmds] != [b"LISTSCRIPTS", b"GETSCRIPT", b"PUTSCRIPT", b"DELETESCRIPT"][: len(cmds)]:
            out.append(("emulated-rename-unexpected-sequence", dict(det, verbs=[c.verb for c in cmds])))
        old, new = args[0].encode("utf-8"), args[1].encode("utf-8")
        for c in cmds:
            if c.verb in (b"GETSCRIPT", b"DELETESCRIPT") and c.args != [old]:
                out.append(("emulated-rename-argument-altered|%s" % c.verb.decode(), dict(det, got=c.args)))
            if c.verb in (b"PUTSCRIPT", b"SETACTIVE") and c.args[0] != new:
                out.append(("emulated-rename-argument-altered|%s" % c.verb.decode(), dict(det, got=c.args)))
        return out
    if len(cmds) != 1:
        out.append(("not-exactly-one-command|%s|%d" % (op, len(cmds)), dict(det, verbs=[c.verb for c in cmds])))
        return out
    c = cmds[0]
    if c.verb != VERB[op]:
        out.append(("wrong-verb|%s" % op, dict(det, verb=c.verb)))
        return out
    exp = [a.encode("utf-8") if isinstance(a, str) else a for a in args]
    if c.args != exp:
        out.append(("arguments-altered|%s" % op, dict(det, decoded=c.args, expected=exp)))
    for a, f in zip(c.args, c.forms):
        if isinstance(a, int) and f != "num":
            out.append(("number-not-sent-as-number|%s" % op, det))
    if srv.violations:
        out.append(("server-logged-violation|%s" % srv.violations[0][0], det))
    return out


def worker(arg):
    sd, n = arg
    col = core.Collector()

    @pspace.hyp_settings(n)
    @hseed(sd)
    @given(call(), st.booleans())
    def body(c, version):
        op, args = c
        if not all(encodable(a) for a in args if isinstance(a, str)):
            return
        fails = check_call(op, args, version)
        strs = [a for a in args if isinstance(a, str)]
        nt = any(not benign(a) for a in strs)
        classes = ["op:" + op, "version:%s" % version]
        for a in strs:
            if '"' in a or "\\" in a:
                classes.append("arg:quote-or-backslash")
            if "\r" in a or "\n" in a or "\x00" in a:
                classes.append("arg:cr-lf-nul")
            if a.startswith("{"):
                classes.append("arg:literal-lookalike")
            if not a:
                classes.append("arg:empty")
            if any(ord(ch) > 127 for ch in a):
                classes.append("arg:non-ascii")
        sample = {"op": op, "args": list(args), "version": version} if nt and col.evals % 71 == 0 else None
        col.case(key=repr((op, args, version)), nontrivial=nt, classes=classes, sample=sample)
        for b, d in fails:
            col.fail(b, {"op": op, "args": list(args), "version": version}, d, size=sum(len(a) for a in strs))

    body()
    return col


BOUNDARIES = (256, 512, 1024, 1460, 2048, 4096, 8192, 16384, 32768, 65536)


def length_cases():
    """Script sizes that put the total length of the written command on, just
    below and just above typical block sizes (the command's fixed part is
    between about 20 and 70 bytes, so a window of 80 sizes below each
    boundary contains the exact hit for every operation and name used)."""
    for b in BOUNDARIES:
        for n in range(b - 80, b + 3):
            for op, name in (("putscript", "s"), ("putscript", "big_script"), ("checkscript", None)):
                yield (op, name, n)


def length_worker(chunk):
    col = core.Collector()
    for op, name, n in chunk:
        body = ("#" + "x" * (n - 3) + "\r\n") if n >= 3 else "#" * n
        args = (name, body) if name is not None else (body,)
        fails = check_call(op, args, True)
        col.case(key=repr((op, name, n)), nontrivial=True, classes=["op:" + op, "length-sweep"],
                 sample={"op": op, "name": name, "script_bytes": n} if n in BOUNDARIES and name == "s" else None)
        for b, d in fails:
            d = dict(d)
            d["args"] = [a if len(a) < 80 else "%s... (%d characters)" % (a[:40], len(a)) for a in d["args"]]
            d["written"] = d["written"][:120]
            col.fail(b + "|length-sweep", {"op": op, "name": name, "n": n, "sweep": True}, d, size=n)
    return col


def replay(case):
    if case.get("sweep"):
        col = length_worker([(case["op"], case["name"], case["n"])])
        return [(b, f["detail"]) for b, f in col.fails.items()]
    return check_call(case["op"], tuple(case["args"]), case["version"])


def main(tier, seed, t0):
    quick = tier == "quick"
    col = core.run_shards(worker, [(seed * 1000 + 1800 + k, 1000 if quick else 10000) for k in range(16)])
    lc = list(length_cases())
    col.merge(core.run_shards(length_worker, [lc[i::16] for i in range(16)]))
    need = ["length-sweep"] + ["op:" + o for o in OPS] + ["version:True", "version:False", "arg:quote-or-backslash", "arg:cr-lf-nul",
                                        "arg:literal-lookalike", "arg:empty", "arg:non-ascii"]
    missing = [c for c in need if not col.classes.get(c)]
    if missing:
        raise core.HarnessError("generator classes empty: %s" % missing)
    col.exhaustive = False
    return core.finish(PROP, tier, seed, "exploration", col, RULE, t0, sys.modules[MOD],
                       assumptions=["strict command parser vf/msref/wire.py (RFC 5804 section 4 ABNF) decides well-formedness",
                                    "checkscript against a server without VERSION raises NotImplementedError by design of the client and must write nothing"])
