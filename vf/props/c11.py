"""C11 - A filter set survives being saved as a script and loaded back."""

import sys

from hypothesis import given, seed as hseed, strategies as st

from .. import core, impl, pspace, fsmodel
from ..gen import filters as F

PROP = "C11"
MOD = __name__

RULE = ("Hypothesis histories (<= 10 operations) of addfilter/updatefilter/replacefilter(with description)/disablefilter/"
        "enablefilter/movefilter/removefilter over generated definitions, names and descriptions (single-line text incl. non-ASCII, "
        "no marker prefix inside, no surrounding white space) and default or custom '#'-initial marker prefixes; oracle: "
        "fs2 = from_parser_result(parse(str(fs))) has the same names in order, enabled flags, descriptions (absent == empty) and "
        "requires; every filter's content renders to a script that parses to the same tree; str of a second reload equals "
        "str(fs2). Plus an exhaustive grid: every set of 1-4 filters, each plain / described / disabled / both, under every marker-prefix pair. Non-trivial = >= 2 filters or a disabled filter or a description; distinct by history.")

# values: the mild alphabet plus the two characters that quoting has to escape (a value may end with either)
VALUE_ALPHA = F.MILD + ["\\", '"', "\\"]
NAME_ALPHA = ["a", "B", "1", " ", "é", "€", "#", ":", '"', "\\", "{", "}", ";", "/*", "😀", "-", ".", "(", "[", ",",
              "\\n", "\\r", "\\t", "n", "\\\\", "%", "\t"]
PREFIXES = [None, ("# rule:", "# about:"), ("#N=", "#D="), ("# Filter: ", "# Description: "), ("#>", "#<"),
            ("# [rule] ", "# (desc) "), ("#** ", "#++ "), ("# Rule? ", "# Desc. "), ("#\\n ", "#\\d "),
            # pairs in which neither marker is a prefix of the other, but one is once its trailing blank is ignored
            ("# r\u00e8gle\u00a0: ", "# \u2192 "), ("#\u20ac", "#\u00a3 "),
            ("## ", "### "), ("### ", "## "), ("# Rule ", "# Rule's purpose: "), ("#N ", "#N: "), ("#D: ", "#D ")]


def text_ok(s, prefixes):
    if not s or s != s.strip() or "\n" in s or "\r" in s:
        return False
    for p in prefixes:
        if p in s or p.strip() in s:
            return False
    return True


@st.composite
def names(draw, prefixes):
    return draw(st.lists(st.sampled_from(NAME_ALPHA), min_size=1, max_size=6).map("".join).filter(lambda s: text_ok(s, prefixes)))


# names the loader itself hands out to filters without a name comment
SPECIAL_NAMES = ["Unnamed rule 1", "Unnamed rule 2", "Unnamed rule 3", "Unnamed rule 10", "unnamed rule 1", "Unnamed rule"]
LONG_WORDS = ["word", "another", "https://example.org/" + "path/" * 18, "a-b-c-d", "x", "\u65e5\u672c\u8a9e" * 30, "semi;colon", "tab\there",
              "double  blank", "(paren)", "end.", "1234567890" * 9, "-", "\u00e9t\u00e9"]


@st.composite
def long_text(draw, prefixes):
    """A description well beyond one line (> 76 characters)."""
    ws = draw(st.lists(st.sampled_from(LONG_WORDS), min_size=8, max_size=30))
    s = " ".join(ws).strip()
    return s if text_ok(s, prefixes) and len(s) > 76 else "a long description " * 6 + "end"


@st.composite
def history(draw):
    prefixes = draw(st.sampled_from(PREFIXES))
    pf = prefixes or ("# Filter: ", "# Description: ")
    pool = draw(st.lists(st.one_of(names(pf), names(pf), st.sampled_from(SPECIAL_NAMES)), min_size=3, max_size=5, unique=True))
    defs = [draw(F.definition(VALUE_ALPHA)) for _ in range(3)]
    ops = []
    for _ in range(draw(st.integers(1, 12))):
        k = draw(st.sampled_from(["add", "add", "add", "add", "update", "replace", "replace", "replace", "remove", "enable", "disable", "disable", "move"]))
        op = {"op": k, "name": draw(st.sampled_from(pool))}
        if k in ("add", "update", "replace"):
            op["def"] = draw(st.integers(0, 2))
        if k == "update":
            op["newname"] = draw(st.sampled_from(pool))
        if k == "replace":
            op["newname"] = draw(st.sampled_from(pool + [None]))
            op["description"] = draw(st.one_of(st.none(), names(pf), names(pf), names(pf), long_text(pf)))
        if k == "move":
            op["dir"] = draw(st.sampled_from(["up", "down"]))
        ops.append(op)
    return {"prefixes": prefixes, "defs": defs, "ops": ops}


def fix(h):
    return {"prefixes": tuple(h["prefixes"]) if h["prefixes"] else None,
            "defs": [{"conditions": [tuple(c) for c in d["conditions"]], "actions": [tuple(a) for a in d["actions"]],
                      "matchtype": d["matchtype"]} for d in h["defs"]],
            "ops": h["ops"]}


def describe(fs):
    return [{"name": f["name"], "enabled": f["enabled"], "description": f.get("description") or ""} for f in fs.filters]


def reload(fs, prefixes):
    text = str(fs)
    p = impl.Parser()
    ok = p.parse(text)
    if ok is not True:
        return text, None, getattr(p, "error", None)
    fs2 = fsmodel.new_set(prefixes)
    fs2.from_parser_result(p)
    return text, fs2, None


def tree_of_content(cmd, requires):
    text = fsmodel.render_command(cmd)
    pre = ""
    if requires:
        pre = "require [%s];\n" % ", ".join('"%s"' % r for r in requires)
    o = impl.parse_outcome(pre + text)
    if o.verdict is not True:
        return ("unparsable", text, o.error)
    return [impl.norm_tree(t, True) for t in impl.forest_of(o.result, True) if t[0] != b"require"]


def strip_requires(text):
    return text


def check(h):
    fails = []
    try:
        fs = fsmodel.new_set(h["prefixes"])
        for op in h["ops"]:
            fsmodel.apply_op(fs, op, h["defs"])
    except Exception as e:  # noqa: BLE001
        return [("building-the-set-raises|" + impl.exc_bucket(e), {"exc": repr(e)[:200]})], None
    try:
        text, fs2, err = reload(fs, h["prefixes"])
    except Exception as e:  # noqa: BLE001
        return [("save-or-load-raises|" + impl.exc_bucket(e), {"exc": repr(e)[:200]})], fs
    if fs2 is None:
        # requires of filter content that lacks its extension is C06's business only when parse fails for that reason
        return [("rendered-set-rejected", {"text": text, "error": err})], fs
    a, b = describe(fs), describe(fs2)
    if [x["name"] for x in a] != [x["name"] for x in b]:
        fails.append(("names-differ", {"text": text, "before": a, "after": b}))
        return fails, fs
    if [x["enabled"] for x in a] != [x["enabled"] for x in b]:
        fails.append(("enabled-flags-differ", {"text": text, "before": a, "after": b}))
    if [x["description"] for x in a] != [x["description"] for x in b]:
        fails.append(("descriptions-differ", {"text": text, "before": a, "after": b}))
    if list(fs.requires) != list(fs2.requires):
        fails.append(("requires-differ", {"text": text, "before": list(fs.requires), "after": list(fs2.requires)}))
    for f1, f2 in zip(fs.filters, fs2.filters):
        try:
            t1, t2 = tree_of_content(f1["content"], fs.requires), tree_of_content(f2["content"], fs2.requires)
        except Exception as e:  # noqa: BLE001
            fails.append(("content-rendering-raises|" + impl.exc_bucket(e), {"filter": f1["name"], "exc": repr(e)[:200]}))
            break
        if t1 != t2 or (t1 and t1[0] == "unparsable"):
            fails.append(("filter-content-differs" if t1[0] != "unparsable" else "filter-content-unparsable", {"filter": f1["name"], "text": text, "t1": repr(t1)[:300], "t2": repr(t2)[:300]}))
            break
    try:
        text2 = str(fs2)
        _, fs3, err3 = reload(fs2, h["prefixes"])
        if fs3 is None:
            fails.append(("reloaded-set-renders-rejected-script", {"text": text2, "error": err3}))
        else:
            text3 = str(fs3)
            if text3 != text2:
                fails.append(("not-a-fixed-point", {"text2": text2, "text3": text3}))
    except Exception as e:  # noqa: BLE001
        fails.append(("second-round-raises|" + impl.exc_bucket(e), {"exc": repr(e)[:200]}))
    return fails, fs


def worker(arg):
    sd, n = arg
    col = core.Collector()

    @pspace.hyp_settings(n)
    @hseed(sd)
    @given(history())
    def body(h):
        fails, fs = check(h)
        d = describe(fs) if fs is not None else []
        nt = len(d) >= 2 or any(not x["enabled"] for x in d) or any(x["description"] for x in d)
        classes = ["prefix:custom" if h["prefixes"] else "prefix:default"]
        if len(d) >= 2:
            classes.append("filters>=2")
        if any(not x["enabled"] for x in d):
            classes.append("has-disabled")
        if any(x["description"] for x in d):
            classes.append("has-description")
        if any(ord(ch) > 127 for x in d for ch in x["name"]):
            classes.append("non-ascii-name")
        sample = None
        if nt and col.evals % 41 == 0:
            sample = {"prefixes": h["prefixes"], "ops": h["ops"], "state": d}
        col.case(key=repr(h), nontrivial=nt, classes=classes, sample=sample)
        for b, det in fails:
            det = dict(det)
            det["ops"] = h["ops"]
            col.fail(b, {"history": h}, det)

    body()
    return col


GRID_DEFS = [
    {"conditions": [("Subject", ":is", "a")], "actions": [("fileinto", "A")], "matchtype": "anyof"},
    {"conditions": [("exists", "X-A"), ("size", ":over", "10k")], "actions": [("redirect", ":copy", "b@example.org")], "matchtype": "allof"},
]
GRID_NAMES = ["first", "second \u00e9", "third #3", "4: fourth"]


def grid_histories():
    """Every set of 1-4 filters in which each filter is plain / described /
    disabled / described and disabled, under every marker-prefix pair."""
    import itertools
    long_desc = "see https://example.org/" + "docs/" * 16 + " for the well-known  rules - and\ttheir exceptions " + "\u65e5\u672c\u8a9e" * 28
    for prefixes in PREFIXES:
        variants = [(GRID_NAMES, "about %d \u20ac")]
        if prefixes in (None, PREFIXES[1]):
            # the loader's own names for nameless filters, not in their own positions; descriptions longer than a line
            variants += [(["Unnamed rule 3", "Unnamed rule 1", "Unnamed rule 2", "Unnamed rule 1 "[:-1] + "0"], "about %d \u20ac"), (GRID_NAMES, long_desc + " %d")]
        for gnames, desc in variants:
            for n in (1, 2, 3, 4):
                for states in itertools.product(range(4), repeat=n):
                    ops = []
                    for i, stt in enumerate(states):
                        ops.append({"op": "add", "name": gnames[i], "def": i % 2})
                        if stt & 1:
                            ops.append({"op": "replace", "name": gnames[i], "newname": None, "def": i % 2, "description": desc % i})
                        if stt & 2:
                            ops.append({"op": "disable", "name": gnames[i]})
                    yield {"prefixes": prefixes, "defs": GRID_DEFS, "ops": ops}


def grid_worker(arg):
    k, n = arg
    col = core.Collector()
    for i, h in enumerate(grid_histories()):
        if i % n != k:
            continue
        fails, fs = check(h)
        col.case(key=None, nontrivial=len(h["ops"]) >= 2, classes=["grid"], sample={"grid": True, "prefixes": h["prefixes"], "ops": h["ops"]} if i % 977 == 0 else None)
        for b, det in fails:
            det = dict(det)
            det["ops"] = h["ops"]
            col.fail(b, {"history": h}, det, size=len(h["ops"]))
    return col


def any_worker(arg):
    return grid_worker(arg[1]) if arg[0] == "grid" else worker(arg[1])


def replay(case):
    fails, _ = check(fix(case["history"]))
    return fails


def shrink(case, bucket, budget):
    h = fix(case["history"])

    def still(ops):
        hh = dict(h)
        hh["ops"] = ops
        return any(b == bucket for b, _ in check(hh)[0])

    hh = dict(h)
    hh["ops"] = core.ddmin(h["ops"], still, budget)
    return {"history": hh}


def main(tier, seed, t0):
    quick = tier == "quick"
    shards = [("hyp", (seed * 1000 + 1100 + k, 400 if quick else 5000)) for k in range(16)] + [("grid", (k, 8)) for k in range(8)]
    col = core.run_shards(any_worker, shards)
    need = ["grid", "prefix:custom", "prefix:default", "filters>=2", "has-disabled", "has-description", "non-ascii-name"]
    missing = [c for c in need if not col.classes.get(c)]
    if missing:
        raise core.HarnessError("generator classes empty: %s" % missing)
    col.exhaustive = False
    return core.finish(PROP, tier, seed, "exploration", col, RULE, t0, sys.modules[MOD],
                       assumptions=["names/descriptions: single-line, no surrounding white space, marker prefixes do not occur inside (quantifier)",
                                    "values of definitions exclude quotes/backslashes here (quoting is C06's subject); tree equality via harness walker"])
