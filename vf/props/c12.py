"""C12 - Filter-set editing operations behave like an ordered, uniquely named list."""

import itertools
import sys

import hypothesis
from hypothesis import strategies as st
from hypothesis.stateful import RuleBasedStateMachine, rule, run_state_machine_as_test

from .. import core, impl, pspace, fsmodel

PROP = "C12"
MOD = __name__

RULE = ("Hypothesis RuleBasedStateMachine (rules = addfilter, updatefilter, replacefilter, removefilter, enablefilter, "
        "disablefilter, movefilter; names from a pool of 3 plus one never-added name; definitions from a pool of 4; <= 30 steps) "
        "and exhaustive enumeration of all histories up to length 3 (quick) / 4 (thorough), and of all continuations of length 2 / 3 of a set "
        "that already holds the three names (freshly added, and after a disable/enable cycle, a disable, an update and a move), over the same pools (replacefilter also with the content object of another filter of "
        "the set, which the two then share; in the machine and the continuations also names that differ from a pool name only by a "
        "surrounding blank or by case) through the same interpreter; oracle: reference ordered-unique-list model compared after every step (names/order, FilterAlreadyExists, "
        "position and enabled flag kept by update/replace, move by one within bounds, unknown names change nothing, enabled flag "
        "== not is_filter_disabled == rendering wrapped in 'if false' with exactly one child, getfilter renders the last supplied "
        "definition); the rendering of the set shows each filter's own current content (white space aside). Non-trivial = history repeats an operation kind on the same name or mixes >= 3 kinds; distinct by history.")

NAMES = ["n1", "n2", "n3"]
GHOST = "never-added"
DEFS = [
    {"conditions": [("Subject", ":is", "a")], "actions": [("fileinto", "A")], "matchtype": "anyof"},
    {"conditions": [("exists", "X-A", "X-B"), ("size", ":over", "10k")], "actions": [("redirect", ":copy", "b@example.org"), ("stop",)],
     "matchtype": "allof"},
    {"conditions": [("false",)], "actions": [("discard",)], "matchtype": "anyof"},
    {"conditions": [("From", ":notcontains", "c")], "actions": [("keep",)], "matchtype": "allof"},
]
_RENDERED = {}


def rendered_def(i):
    if i not in _RENDERED:
        _RENDERED[i] = " ".join(fsmodel.render_def(DEFS[i]).split())
    return _RENDERED[i]


# names that differ from a pool name only by a surrounding blank or by case: different names
TWINS = ["n1 ", " n2", "N3"]


def all_ops(twins=False):
    ops = []
    for n in NAMES + [GHOST] + (TWINS if twins else []):
        if n != GHOST:
            for d in range(len(DEFS) if n in NAMES else 1):
                ops.append({"op": "add", "name": n, "def": d})
        for k in ("remove", "enable", "disable"):
            ops.append({"op": k, "name": n})
        for dr in ("up", "down"):
            ops.append({"op": "move", "name": n, "dir": dr})
        for new in NAMES + (TWINS[:1] if twins else []):
            ops.append({"op": "update", "name": n, "newname": new, "def": ((NAMES + TWINS).index(new) + 1) % len(DEFS)})
        for new in NAMES + [None]:
            ops.append({"op": "replace", "name": n, "newname": new, "def": 1, "description": "d" if new is None else None})
    # replacefilter with the content object of another filter of the set (shared from then on)
    for dst in NAMES:
        for src in NAMES:
            ops.append({"op": "replace", "name": dst, "from": src, "newname": None, "def": 2, "description": None})
    # the API also takes names as UTF-8 bytes
    ops.append({"op": "add", "name": b"n1", "def": 0})
    ops.append({"op": "remove", "name": b"n2"})
    ops.append({"op": "disable", "name": b"n1"})
    ops.append({"op": "update", "name": b"n1", "newname": b"n3", "def": 2})
    ops.append({"op": "replace", "name": "n1", "newname": b"n2", "def": 3, "description": None})
    ops.append({"op": "update", "name": "n2", "newname": b"n1", "def": 0})
    return ops


def snapshot(fs):
    return [(f["name"], f["enabled"]) for f in fs.filters]


def check_state(fs, model, step, op):
    """Invariants after a step. -> list of (bucket, detail)"""
    out = []
    names = [f["name"] for f in fs.filters]
    mnames = [it["name"] for it in model.items]
    if names != mnames:
        out.append(("names-or-order-differ|after=%s" % op["op"], {"impl": names, "model": mnames}))
        return out
    if len(set(names)) != len(names):
        out.append(("duplicate-names|after=%s" % op["op"], {"impl": names}))
    try:
        text = str(fs)
    except Exception as e:  # noqa: BLE001
        out.append(("str-raises|" + impl.exc_bucket(e), {"exc": repr(e)[:200]}))
        return out
    p = impl.Parser()
    try:
        ok = p.parse(text)
    except Exception as e:  # noqa: BLE001
        ok = None
    cmds = None
    if ok is True:
        cmds = [c for c in p.result if c.name != "require"]
        if len(cmds) != len(names):
            out.append(("rendering-has-wrong-number-of-filters|after=%s" % op["op"], {"text": text, "filters": names}))
            cmds = None
    else:
        out.append(("rendering-not-accepted|after=%s" % op["op"], {"text": text, "error": getattr(p, "error", None)}))
    for k, (f, it) in enumerate(zip(fs.filters, model.items)):
        flag = f["enabled"]
        isdis = fs.is_filter_disabled(f["name"])
        wrapped = None
        if cmds is not None:
            c = cmds[k]
            t = impl.tree_of(c)
            is_if_false = (t[0] == b"if" and len(t[2]) == 1 and t[2][0][0] == b"false" and not t[2][0][1])
            wrapped = is_if_false and t[3] is not None and len(t[3]) == 1
            # a filter defined as DEFS[2] is 'if anyof (false)': not a wrapper
            if is_if_false and not wrapped:
                out.append(("wrapper-without-exactly-one-child|after=%s" % op["op"], {"text": text, "filter": f["name"]}))
        obs = {"enabled_flag": flag, "is_filter_disabled": isdis, "rendered_wrapped": wrapped, "model_enabled": it["enabled"]}
        if flag is not it["enabled"] or isdis is not (not it["enabled"]) or (wrapped is not None and wrapped is not (not it["enabled"])):
            out.append(("enabled-status-inconsistent|after=%s" % op["op"], {"filter": f["name"], "observed": obs, "text": text}))
            break
        if cmds is not None and wrapped is not None:
            # the rendering of the set shows this filter's own, current content
            shown = cmds[k].children[0] if wrapped else cmds[k]
            try:
                stext = " ".join(fsmodel.render_command(shown).split())
            except Exception as e:  # noqa: BLE001
                stext = "raises " + repr(e)[:100]
            # white space is not compared: the factory keeps '["a","b"]' verbatim, a re-rendered list has ', '
            if "".join(stext.split()) != "".join(rendered_def(it["def"]).split()):
                out.append(("rendering-not-own-content|after=%s" % op["op"], {"filter": f["name"], "rendered": stext, "expected": rendered_def(it["def"]), "text": text}))
                break
        got = fs.getfilter(f["name"])
        try:
            gtext = " ".join(fsmodel.render_command(got).split()) if got is not None else None
        except Exception as e:  # noqa: BLE001
            gtext = "raises " + repr(e)[:100]
        if gtext != rendered_def(it["def"]):
            out.append(("getfilter-not-own-content|after=%s" % op["op"], {"filter": f["name"], "got": gtext, "expected": rendered_def(it["def"]), "enabled": it["enabled"]}))
            break
    if fs.getfilter(GHOST) is not None:
        out.append(("getfilter-unknown-name-not-None", {}))
    return out


def run_history(ops, last_only=False):
    """Interpret a history against implementation and model. -> list of fails.
    last_only: state invariants are evaluated after the last step only (used by
    the exhaustive enumeration, where every prefix is a case of its own)."""
    fs = fsmodel.new_set()
    model = fsmodel.Model()
    fails = []
    for step, op in enumerate(ops):
        before_text = None
        before = snapshot(fs)
        unknown = model.find(op["name"].decode("utf-8") if isinstance(op["name"], bytes) else op["name"]) < 0 and op["op"] != "add"
        last = step == len(ops) - 1
        if unknown and (last or not last_only):
            try:
                before_text = str(fs)
            except Exception:  # noqa: BLE001
                before_text = None
        try:
            obs = fsmodel.apply_op(fs, op, DEFS)
        except Exception as e:  # noqa: BLE001
            fails.append(("operation-raises|%s|%s" % (op["op"], impl.exc_bucket(e)), {"ops": ops[: step + 1], "exc": repr(e)[:200]}))
            return fails
        pre = [dict(it) for it in model.items]
        exp = model.apply(op)
        if exp is not None and obs != exp and not (exp == ("ret", None) and obs == ("ret", None)):
            if not (exp[0] == "ret" and obs[0] == "ret" and exp[1] in (False, None) and obs[1] in (False, None) and unknown):
                fails.append(("result-differs|%s|expected=%s|got=%s" % (op["op"], exp, obs), {"ops": ops[: step + 1], "expected": exp, "got": obs}))
                return fails
        if unknown and (last or not last_only):
            after_text = None
            try:
                after_text = str(fs)
            except Exception:  # noqa: BLE001
                pass
            if snapshot(fs) != before or after_text != before_text:
                fails.append(("unknown-name-changed-the-set|%s" % op["op"], {"ops": ops[: step + 1]}))
                return fails
        if exp == ("exc", "FilterAlreadyExists") and snapshot(fs) != before:
            fails.append(("failed-operation-changed-the-set|%s" % op["op"], {"ops": ops[: step + 1], "before": before, "after": snapshot(fs)}))
            return fails
        st_f = check_state(fs, model, step, op) if (last or not last_only) else []
        if st_f:
            for b, d in st_f:
                d = dict(d)
                d["ops"] = ops[: step + 1]
                fails.append((b, d))
            return fails
    return fails


def nontrivial(ops):
    kinds = {o["op"] for o in ops}
    if len(kinds) >= 3:
        return True
    seen = set()
    for o in ops:
        k = (o["op"], o["name"])
        if k in seen:
            return True
        seen.add(k)
    return False


def record(col, ops, src):
    fails = run_history(ops, last_only=(src in ("exhaustive", "populated")))
    nt = nontrivial(ops)
    sample = None
    if nt and col.evals % (4001 if src == "exhaustive" else 37) == 0:
        sample = {"ops": ops, "src": src}
    col.case(key=None if src in ("exhaustive", "populated") else repr(ops), nontrivial=nt,
             classes=["src:" + src] + ["op:" + k for k in {o["op"] for o in ops}], sample=sample)
    for b, d in fails:
        col.fail(b, {"ops": d["ops"]}, d, size=len(d["ops"]) * 1000 + len(repr(d["ops"])))


def exhaustive_worker(arg):
    first, maxlen = arg
    col = core.Collector()
    ops = all_ops()

    def rec(prefix, depth):
        record(col, prefix, "exhaustive")
        if depth == maxlen:
            return
        for o in ops:
            rec(prefix + [o], depth + 1)

    rec([ops[first]], 1)
    return col


def populated_worker(arg):
    """All continuations of a set that already holds every name (distinct definitions)."""
    first, maxlen = arg
    col = core.Collector()
    ops = all_ops(twins=True)
    prefix0 = [{"op": "add", "name": n, "def": i % len(DEFS)} for i, n in enumerate(NAMES)]
    # the same set after some life: n1 disabled and enabled again, n2 disabled, n3 updated and moved up
    prefix1 = prefix0 + [{"op": "disable", "name": NAMES[0]}, {"op": "enable", "name": NAMES[0]}, {"op": "disable", "name": NAMES[1]},
                         {"op": "update", "name": NAMES[2], "newname": NAMES[2], "def": 0}, {"op": "move", "name": NAMES[2], "dir": "up"}]

    def rec(prefix, depth):
        record(col, prefix, "populated")
        if depth == maxlen:
            return
        for o in ops:
            rec(prefix + [o], depth + 1)

    rec(prefix0 + [ops[first]], 1)
    rec(prefix1 + [ops[first]], 1)
    return col


def machine_worker(arg):
    sd, n, steps = arg
    col = core.Collector()
    ops_pool = all_ops(twins=True)

    class FilterSetMachine(RuleBasedStateMachine):
        def __init__(self):
            super().__init__()
            self.history = []

        @rule(op=st.sampled_from(ops_pool))
        def step(self, op):
            self.history.append(op)

        def teardown(self):
            if self.history:
                record(col, self.history, "machine")

    run_state_machine_as_test(
        hypothesis.seed(sd)(FilterSetMachine),
        settings=hypothesis.settings(max_examples=n, stateful_step_count=steps, database=None, deadline=None,
                                     report_multiple_bugs=False, suppress_health_check=list(hypothesis.HealthCheck),
                                     phases=[hypothesis.Phase.generate]))
    return col


def worker(arg):
    if arg[0] == "pop":
        return populated_worker(arg[1])
    return exhaustive_worker(arg[1]) if arg[0] == "ex" else machine_worker(arg[1])


def replay(case):
    fails = run_history(case["ops"])
    return [(b, d) for b, d in fails]


def shrink(case, bucket, budget):
    def still(ops):
        return any(b == bucket for b, _ in run_history(ops))

    return {"ops": core.ddmin(case["ops"], still, budget)}


def main(tier, seed, t0):
    quick = tier == "quick"
    nops = len(all_ops())
    maxlen = 3 if quick else 4
    shards = [("ex", (i, maxlen)) for i in range(nops)]
    shards += [("pop", (i, 2 if quick else 3)) for i in range(len(all_ops(twins=True)))]
    shards += [("sm", (seed * 1000 + 900 + k, 60 if quick else 1200, 30)) for k in range(16)]
    col = core.run_shards(worker, shards)
    need = ["src:exhaustive", "src:populated", "src:machine", "op:add", "op:update", "op:replace", "op:remove", "op:enable", "op:disable", "op:move"]
    missing = [c for c in need if not col.classes.get(c)]
    if missing:
        raise core.HarnessError("generator classes empty: %s" % missing)
    col.exhaustive = False
    return core.finish(PROP, tier, seed, "exploration", col, RULE, t0, sys.modules[MOD],
                       assumptions=["return values the property does not fix (disabling an already disabled filter, enabling an enabled one) are not asserted",
                                    "replacefilter content is built through the same set's public API (add under a temporary name, getfilter, remove)"],
                       extra={"exhaustive_part": "all histories of length <= %d over %d operations (%d names x %d definitions)" % (maxlen, nops, len(NAMES) + 1, len(DEFS)),
                              "operations": nops})
