"""C17 - Script names and bodies come back exactly as the server holds them."""

import itertools
import sys

from hypothesis import given, seed as hseed, strategies as st

from .. import core, pspace
from ..msref import wire, replies as R
from ..msref.transport import Session, ScriptedPeer

PROP = "C17"
MOD = __name__

RULE = ("Hypothesis script bodies (lines from a pool of protocol look-alikes - OK, NO \"x\", BYE, {5}, {5+}, \"a\" ACTIVE - empty, "
        "text, non-ASCII, very long; LF/CRLF/mixed endings; with/without final newline) and name sets (0-5 names incl. ACTIVE, OK, "
        "{3}, quotes, backslashes, spaces, non-ASCII, non-NFC text, status words in other case; any or no active one), plus listings of 400 names "
        "and scripts of 700 multi-byte lines shifted byte by byte over 24 offsets (every alignment of line breaks and multi-byte characters with the "
        "client's read blocks), each served in EVERY encoding RFC 5804 permits "
        "(quoted where representable, literal) with varying status lines; oracle: getscript lines == stored lines (line endings "
        "and trailing blank lines ignored), listscripts == (active, others in served order); a following sentinel operation "
        "succeeds. Non-trivial = a line or name is a protocol look-alike, needs escaping or is sent as literal; distinct by "
        "value+encoding.")

LOOKALIKE = (b"OK", b"NO", b"BYE", b"{", b'"', b"ACTIVE", b"\\")


def run(op, reply_bytes):
    peer = ScriptedPeer(R.GREETING, [R.AUTH_OK, reply_bytes, wire.status_line(b"OK", None, b"sentinel")])
    s = Session(peer)
    if s.call("connect", "user", "pass") != ("ret", True):
        raise core.HarnessError("scripted connect failed")
    got = s.call(op, *R.op_args(op))
    sent = s.call("havespace", "x", 1)
    left = bytes(s.sock.inq)
    s.close()
    return got, sent, left


def check_body(body, form, status_bytes):
    reply = wire.enc_string(body, form) + wire.CRLF + status_bytes
    got, sent, left = run("getscript", reply)
    exp = wire.split_lines(body)
    out = []
    det = {"body": body, "form": form, "reply": reply, "got": got}
    if got[0] != "ret" or not isinstance(got[1], str):
        out.append(("getscript-fails|%s|%s" % (form, got[1] if got[0] == "exc" else type(got[1]).__name__), det))
        return out
    lines = wire.split_lines(got[1].encode("utf-8"))
    if lines != exp:
        why = "lines-dropped" if len(lines) < len(exp) else "lines-added" if len(lines) > len(exp) else "line-changed"
        out.append(("script-altered|%s|%s" % (form, why), dict(det, expected_lines=exp, got_lines=lines)))
    if sent != ("ret", True) or left:
        out.append(("session-out-of-step-after-getscript|%s" % form, dict(det, sentinel=sent, leftover=left)))
    return out


def check_listing(names, active, forms, status_bytes):
    reply = b"".join(wire.listing_line(n, n == active, f) for n, f in zip(names, forms)) + status_bytes
    got, sent, left = run("listscripts", reply)
    exp = (active.decode("utf-8") if active is not None else None, [n.decode("utf-8") for n in names if n != active])
    out = []
    det = {"names": names, "active": active, "forms": forms, "reply": reply, "got": got, "expected": exp}
    if got[0] != "ret" or not isinstance(got[1], tuple):
        out.append(("listscripts-fails|%s" % (got[1] if got[0] == "exc" else type(got[1]).__name__), det))
        return out
    if got[1][0] != exp[0]:
        out.append(("active-script-wrong|active-form=%s" % (forms[names.index(active)] if active is not None else "-"), det))
    elif list(got[1][1]) != exp[1]:
        bad = "?"
        for n, f in zip(names, forms):
            if n != active and n.decode("utf-8") not in list(got[1][1]):
                bad = f
                break
        out.append(("names-wrong|form=%s" % bad, det))
    if sent != ("ret", True) or left:
        out.append(("session-out-of-step-after-listscripts", dict(det, sentinel=sent, leftover=left)))
    return out


def worker(arg):
    sd, n = arg
    col = core.Collector()

    @pspace.hyp_settings(n)
    @hseed(sd)
    @given(st.data())
    def body(data):
        stt = data.draw(R.status((b"OK",)))["bytes"]
        if data.draw(st.booleans()):
            b = data.draw(R.script_body())
            for form in wire.forms_for(b):
                fails = check_body(b, form, stt)
                nt = form == "literal" or any(ln.startswith(LOOKALIKE) for ln in wire.split_lines(b)) or b'"' in b or b"\\" in b
                cl = ["kind:body", "form:" + form]
                if not b:
                    cl.append("body:empty")
                if b and not b.endswith(b"\n"):
                    cl.append("body:no-final-newline")
                if any(ln.startswith((b"OK", b"NO", b"BYE")) for ln in wire.split_lines(b)):
                    cl.append("body:status-lookalike")
                if any(ln.startswith(b"{") for ln in wire.split_lines(b)):
                    cl.append("body:literal-lookalike")
                sample = {"body": b, "form": form} if nt and col.evals % 83 == 0 else None
                col.case(key=b"B" + form.encode() + b, nontrivial=nt, classes=cl, sample=sample)
                for bk, d in fails:
                    col.fail(bk, {"kind": "body", "body": b, "form": form, "status": stt}, d, size=len(b))
        else:
            ns = data.draw(R.names())
            active = data.draw(st.sampled_from(ns + [None])) if ns else None
            for forms in itertools.product(*[wire.forms_for(x) for x in ns]):
                forms = list(forms)
                fails = check_listing(ns, active, forms, stt)
                nt = "literal" in forms or any(x.startswith(LOOKALIKE) or b'"' in x or b"\\" in x or b"ACTIVE" in x for x in ns)
                cl = ["kind:listing", "names:%d" % len(ns)]
                if active is not None:
                    cl.append("active:" + forms[ns.index(active)])
                if any(b'"' in x or b"\\" in x for x in ns):
                    cl.append("name:needs-escaping")
                if any(x.startswith((b"{", b"OK", b"NO", b"ACTIVE")) for x in ns):
                    cl.append("name:lookalike")
                sample = {"names": ns, "active": active, "forms": forms} if nt and col.evals % 83 == 0 else None
                col.case(key=b"L" + repr((ns, active, forms)).encode(), nontrivial=nt, classes=cl, sample=sample)
                for bk, d in fails:
                    col.fail(bk, {"kind": "listing", "names": ns, "active": active, "forms": forms, "status": stt}, d,
                             size=sum(len(x) for x in ns) + 10 * len(ns))

    body()
    return col


def large_cases():
    """Data far larger than the client's read size, shifted byte by byte so that every
    line break and every character of a multi-byte sequence falls on every position
    relative to the boundaries of the blocks the client reads."""
    for shift in range(0, 24):
        yield ("listing", shift, 400, "quoted")
        yield ("listing", shift, 400, "literal")
    for shift in range(0, 24):
        yield ("body", shift, 700, None)


def large_worker(chunk):
    col = core.Collector()
    okl = wire.status_line(b"OK", None, b"ok")
    for kind, shift, n, form in chunk:
        if kind == "listing":
            names = [b"f" * (shift + 1)] + [("script-%03d-\u00e9\u20ac" % i).encode("utf-8") for i in range(n)]
            active = names[n // 2]
            fails = check_listing(names, active, [form] * len(names), okl)
            small = {"kind": "large-listing", "shift": shift, "n": n, "form": form}
        else:
            lines = [b"#" + b"s" * shift] + [("# line %04d \u00e9\u20ac\U0001F600" % i).encode("utf-8") for i in range(n)]
            body = b"\r\n".join(lines) + b"\r\n"
            fails = check_body(body, "literal", okl)
            small = {"kind": "large-body", "shift": shift, "n": n}
        col.case(key=repr(small), nontrivial=True, classes=["kind:large-" + kind], sample=small if shift == 3 else None)
        for bk, d in fails:
            d = {k: (v if len(repr(v)) < 400 else repr(v)[:400] + "...") for k, v in d.items()}
            col.fail(bk + "|large", dict(small), d, size=shift)
    return col


def replay(case):
    if case["kind"].startswith("large-"):
        col = large_worker([("listing" if case["kind"] == "large-listing" else "body", case["shift"], case["n"], case.get("form"))])
        return [(b, f["detail"]) for b, f in col.fails.items()]
    if case["kind"] == "body":
        return check_body(case["body"], case["form"], case["status"])
    return check_listing(case["names"], case["active"], case["forms"], case["status"])


def main(tier, seed, t0):
    quick = tier == "quick"
    col = core.run_shards(worker, [(seed * 1000 + 1700 + k, 600 if quick else 8000) for k in range(16)])
    lc = list(large_cases())
    col.merge(core.run_shards(large_worker, [lc[i::16] for i in range(16)]))
    need = ["kind:large-listing", "kind:large-body", "kind:body", "kind:listing", "form:quoted", "form:literal", "body:empty", "body:no-final-newline", "body:status-lookalike",
            "body:literal-lookalike", "active:quoted", "active:literal", "name:needs-escaping", "name:lookalike"]
    missing = [c for c in need if not col.classes.get(c)]
    if missing:
        raise core.HarnessError("generator classes empty: %s" % missing)
    col.exhaustive = False
    return core.finish(PROP, tier, seed, "exploration", col, RULE, t0, sys.modules[MOD],
                       assumptions=["bodies compared line by line, ignoring line-ending style and trailing blank lines (as the property states)",
                                    "a quoted encoding is only used where RFC 5804 allows it (no CR/LF/NUL, valid UTF-8, <= 1024 octets)"])
