"""C05 - ManageSieve replies are read identically however the bytes are segmented."""

import sys

from hypothesis import given, seed as hseed, strategies as st

from .. import core, pspace
from ..msref import wire, replies as R
from ..msref.transport import Session, ScriptedPeer, FakeSocket

PROP = "C05"
MOD = __name__

RULE = ("every operation (connect, connect again on the same Client after a refused login that may be followed by BYE, capability, listscripts, getscript, putscript, checkscript, deletescript, renamescript native "
        "and emulated, setactive, havespace) x Hypothesis reply from the RFC 5804 reply grammar (quoted/literal strings, response "
        "codes, listings, bodies with CRLF-rich and protocol-look-alike content, NO with literal text) x schedules: every single "
        "cut, every pair of cuts for replies <= 48 bytes (exhaustive), recv capped at 1/2/3/7/64 bytes, Hypothesis k-way splits; "
        "followed by two sentinel operations; oracle: (result, errcode, errmsg, sentinel results, unread bytes, bytes written) "
        "identical to the single-chunk delivery, and the reply is consumed exactly. Non-trivial = a cut falls strictly inside a "
        "literal, inside a CRLF or inside the status line; distinct by (operation, reply, schedule).")

SENT_BODY = b"# sentinel body \xc3\xa9\r\nkeep;\r\n"
SENT1 = wire.enc_literal(SENT_BODY) + wire.CRLF + wire.status_line(b"OK", None, b"sentinel 1")
SENT2 = wire.listing_line(b"sentinel-a", True, "quoted") + wire.listing_line(b"sentinel b", False, "literal") + wire.status_line(b"OK", None, b"sentinel 2")
EMU_LISTING = wire.listing_line(b"old", True, "literal") + wire.listing_line(b"x", False, "quoted") + wire.status_line(b"OK", None, b"ok")
EMU_BODY = wire.enc_literal(b"keep;\r\nstop;\r\n") + wire.CRLF + wire.status_line(b"OK", None, b"ok")
OKL = wire.status_line(b"OK", None, b"ok")


def layout(stream):
    """Classify byte positions of a reply stream: returns (literal spans, crlf positions, start of last line)."""
    spans = []
    i = 0
    n = len(stream)
    last_line = 0
    while i < n:
        k = stream.find(b"\r\n", i)
        if k < 0:
            break
        line = stream[i:k]
        nxt = k + 2
        if line.endswith(b"}") and b"{" in line:
            hdr = line[line.rfind(b"{") + 1 : -1]
            if hdr.isdigit():
                size = int(hdr)
                spans.append((nxt, nxt + size))
                i = nxt + size
                continue
        last_line = i
        i = nxt
    return spans, last_line


def observe(op, stream_replies, greeting, schedule, cap, emulated=False):
    """Run connect (unsegmented unless op == 'connect'), the operation with the given segmentation, then sentinels."""
    if op == "connect":
        peer = ScriptedPeer(greeting, stream_replies + [SENT1, SENT2])
        s = Session(peer, schedule=schedule, cap=cap)
        res = s.call("connect", "user", "pass")
    elif op == "reconnect":
        # a refused login (possibly followed by BYE), segmented; then the same Client
        # connects again over a new connection to a server that lets it in
        peer = ScriptedPeer(greeting, stream_replies)
        s = Session(peer, schedule=schedule, cap=cap)
        first = s.call("connect", "user", "pass")
        peer2 = ScriptedPeer(R.GREETING, [R.AUTH_OK, SENT1, SENT2])
        s.peer = peer2
        s.sock = FakeSocket(peer2)
        res = (first, s.call("connect", "user", "pass"))
        if res[1][0] == "exc":
            res = ("exc", res)
    else:
        peer = ScriptedPeer(greeting, [R.AUTH_OK] + stream_replies + [SENT1, SENT2])
        s = Session(peer)
        r = s.call("connect", "user", "pass")
        if r != ("ret", True):
            raise core.HarnessError("scripted connect failed: %r" % (r,))
        s.sock.schedule = list(schedule)
        s.sock.cap = cap
        if emulated:
            res = s.call("renamescript", "old", "new")
        else:
            res = s.call(op, *R.op_args(op))
    unread_after_op = bytes(s.sock.inq)
    ec, em = s.client.errcode, s.client.errmsg
    s.sock.schedule = []
    s.sock.cap = None
    sent = None
    if not (res[0] == "exc"):
        sent = (s.call("getscript", "sentinel"), s.call("listscripts"))
    obs = {"result": res, "errcode": ec, "errmsg": em, "unread_after_op": unread_after_op, "sentinels": sent,
           "leftover": bytes(s.sock.inq), "written": s.sock.written()}
    s.close()
    return obs


def schedules_for(stream, data=None, exhaustive_pairs=True):
    n = len(stream)
    out = []
    for i in range(1, n):
        out.append(([i], None))
    if exhaustive_pairs and n <= 48:
        for i in range(1, n):
            for j in range(i + 1, n):
                out.append(([i, j - i], None))
    for cap in (1, 2, 3, 7, 64):
        out.append(([], cap))
    return out


def cut_positions(schedule, cap, n):
    if cap:
        return list(range(cap, n, cap))
    pos = []
    p = 0
    for c in schedule:
        p += c
        if p < n:
            pos.append(p)
    return pos


def nontrivial(stream, schedule, cap):
    spans, last_line = layout(stream)
    for p in cut_positions(schedule, cap, len(stream)):
        if any(a < p < b for a, b in spans):
            return True
        if stream[p - 1 : p + 1] == b"\r\n":
            return True
        if p > last_line:
            return True
    return False


def check(op, stream_replies, greeting, emulated, col, data=None, expected=None):
    stream = b"".join(stream_replies) if op not in ("connect", "reconnect") else greeting + b"".join(stream_replies)
    base = observe(op, stream_replies, greeting, [], None, emulated)
    # exact consumption in the reference run
    fails = []
    label = "emulated-rename" if emulated else op
    if expected is not None and not R.matches(expected, base["result"]):
        # recv() returning exactly as many bytes as asked for is a segmentation, too
        fails.append(("unsegmented-delivery-misread|%s|len=%d" % (label, len(stream)),
                      {"op": label, "stream_length": len(stream), "expected": expected, "got": base["result"], "schedule": [], "cap": None}))
    if base["result"][0] != "exc" and base["unread_after_op"]:
        fails.append(("reply-not-consumed-exactly|%s|single-chunk" % label, {"op": label, "stream": stream, "unread": base["unread_after_op"]}))
    scheds = schedules_for(stream)
    if data is not None:
        for _ in range(6):
            k = data.draw(st.integers(2, 6))
            cuts = sorted(set(data.draw(st.lists(st.integers(1, max(1, len(stream) - 1)), min_size=k, max_size=k))))
            sch = [b - a for a, b in zip([0] + cuts, cuts)]
            scheds.append((sch, None))
    for schedule, cap in scheds:
        obs = observe(op, stream_replies, greeting, schedule, cap, emulated)
        nt = nontrivial(stream, schedule, cap)
        kind = "cap" if cap else "cut%d" % len(schedule) if len(schedule) <= 2 else "kway"
        sample = None
        if nt and col.evals % 4099 == 0:
            sample = {"op": label, "stream": stream, "schedule": schedule, "cap": cap}
        col.case(key=label.encode() + stream + repr((schedule, cap)).encode(), nontrivial=nt, classes=["op:" + label, "sched:" + kind], sample=sample)
        if obs != base:
            diff = [k for k in base if base[k] != obs[k]]
            spans, last = layout(stream)
            where = "?"
            for p in cut_positions(schedule, cap, len(stream)):
                if any(a < p < b for a, b in spans):
                    where = "in-literal"
                    break
                if stream[p - 1 : p + 1] == b"\r\n":
                    where = "in-crlf"
                    break
            fails.append(("segmentation-dependent|%s|%s|differs=%s" % (label, where, diff[0]),
                          {"op": label, "stream": stream, "schedule": schedule, "cap": cap, "single_chunk": base, "segmented": obs}))
    seen = set()
    for b, d in fails:
        if b in seen:
            continue
        seen.add(b)
        col.fail(b, {"op": op, "replies": stream_replies, "greeting": greeting, "emulated": emulated,
                     "schedule": d.get("schedule", []), "cap": d.get("cap")}, d,
                 size=len(stream) * 10 + len(d.get("schedule", [])))


def worker(arg):
    sd, n = arg
    col = core.Collector()

    @pspace.hyp_settings(n)
    @hseed(sd)
    @given(st.data())
    def body(data):
        op = data.draw(st.sampled_from(R.OPS + ["connect", "emulated-rename", "reconnect"]))
        if op == "reconnect":
            first = data.draw(R.status((b"NO", b"BYE")))["bytes"]
            if data.draw(st.booleans()):
                first += data.draw(R.status((b"BYE",)))["bytes"]
            check("reconnect", [first], R.GREETING, False, col, data)
        elif op == "connect":
            auth = data.draw(R.status((b"OK", b"NO")))
            check("connect", [auth["bytes"]], R.GREETING, False, col, data)
        elif op == "emulated-rename":
            # all five steps answered OK, with generated encodings of listing/body
            names = [b"old", b"x y"]
            listing = b"".join(wire.listing_line(nm, nm == b"old", data.draw(st.sampled_from(["quoted", "literal"]))) for nm in names) + \
                data.draw(R.status((b"OK",)))["bytes"]
            body_ = data.draw(R.script_body())
            getr = wire.enc_literal(body_) + wire.CRLF + data.draw(R.status((b"OK",)))["bytes"]
            stream = [listing, getr, OKL, data.draw(R.status((b"OK", b"NO")))["bytes"], OKL]
            check("renamescript", stream, R.GREETING_NOVERSION, True, col, data)
        else:
            rep = data.draw(R.reply(op, (b"OK", b"NO")))
            exp = R.expected(rep)
            if op == "capability":
                exp = None
            check(op, [rep["bytes"]], R.GREETING, False, col, data, expected=exp)

    body()
    if sd % 16 == 0:
        boundary_family(col)
    return col


def boundary_family(col):
    """Replies whose length is exactly (a multiple of) the client's read size,
    one byte less and one byte more: recv() then returns exactly what was
    asked for with nothing behind it."""
    from sievelib import managesieve as ms
    rs = getattr(ms.Client, "read_size", 4096)
    tail = wire.status_line(b"OK", None, b"Getscript completed.")
    for total in (rs - 1, rs, rs + 1, 2 * rs - 1, 2 * rs, 2 * rs + 1):
        # {n}CRLF body CRLF OK-line  ==  total bytes
        n = total - len(tail) - 2
        hdr = b"{%d}\r\n" % (n - len(b"{%d}\r\n" % n))
        body = b"#" + b"x" * (total - len(tail) - 2 - len(hdr) - 3) + b"\r\n"
        reply = b"{%d}\r\n" % len(body) + body + b"\r\n" + tail
        # adjust for the header length estimate
        while len(reply) > total and len(body) > 3:
            body = b"#" + body[2:]
            reply = b"{%d}\r\n" % len(body) + body + b"\r\n" + tail
        while len(reply) < total:
            body = b"#x" + body[1:]
            reply = b"{%d}\r\n" % len(body) + body + b"\r\n" + tail
        exp = ("ret", ("lines", [body[:-2].decode()]))
        base = observe("getscript", [reply], R.GREETING, [], None)
        col.case(key=b"boundary-getscript-%d" % total, nontrivial=True, classes=["op:getscript", "sched:read-size-boundary"],
                 sample={"op": "getscript", "reply_length": len(reply), "read_size": rs} if total == rs else None)
        if not R.matches(exp, base["result"]) or base["sentinels"] is None or base["sentinels"][0][0] != "ret":
            col.fail("unsegmented-delivery-misread|getscript|len=%d(read_size=%d)" % (len(reply), rs),
                     {"op": "getscript", "replies": [reply], "greeting": R.GREETING, "emulated": False, "schedule": [], "cap": None, "boundary": True},
                     {"reply_length": len(reply), "result": base["result"], "sentinels": base["sentinels"]}, size=len(reply))
        # and the same stream cut exactly at the read size
        for sch in ([rs], [rs - 1], [rs + 1]):
            if sch[0] >= len(reply):
                continue
            obs = observe("getscript", [reply], R.GREETING, sch, None)
            col.case(key=b"boundary-getscript-%d-%d" % (total, sch[0]), nontrivial=True, classes=["sched:read-size-boundary"])
            if obs != base:
                col.fail("segmentation-dependent|getscript|read-size-boundary", {"op": "getscript", "replies": [reply], "greeting": R.GREETING,
                         "emulated": False, "schedule": sch, "cap": None}, {"single_chunk": base["result"], "segmented": obs["result"]}, size=len(reply))


def replay(case):
    col = core.Collector()
    op = case["op"]
    if case.get("boundary"):
        boundary_family(col)
        return [(b, f["detail"]) for b, f in col.fails.items()]
    base = observe(op, case["replies"], case["greeting"], [], None, case["emulated"])
    obs = observe(op, case["replies"], case["greeting"], case["schedule"], case["cap"], case["emulated"])
    out = []
    label = "emulated-rename" if case["emulated"] else op
    stream = b"".join(case["replies"]) if op not in ("connect", "reconnect") else case["greeting"] + b"".join(case["replies"])
    if base["result"][0] != "exc" and base["unread_after_op"]:
        out.append(("reply-not-consumed-exactly|%s|single-chunk" % label, {"unread": base["unread_after_op"]}))
    if obs != base:
        diff = [k for k in base if base[k] != obs[k]]
        spans, last = layout(stream)
        where = "?"
        for p in cut_positions(case["schedule"], case["cap"], len(stream)):
            if any(a < p < b for a, b in spans):
                where = "in-literal"
                break
            if stream[p - 1 : p + 1] == b"\r\n":
                where = "in-crlf"
                break
        out.append(("segmentation-dependent|%s|%s|differs=%s" % (label, where, diff[0]), {"single_chunk": base, "segmented": obs}))
    return out


def main(tier, seed, t0):
    quick = tier == "quick"
    col = core.run_shards(worker, [(seed * 1000 + 1500 + k, 60 if quick else 800) for k in range(16)])
    need = ["op:" + o for o in R.OPS] + ["op:connect", "op:reconnect", "op:emulated-rename", "sched:cut1", "sched:cut2", "sched:cap", "sched:kway", "sched:read-size-boundary"]
    missing = [c for c in need if not col.classes.get(c)]
    if missing:
        raise core.HarnessError("generator classes empty: %s" % missing)
    col.exhaustive = False
    return core.finish(PROP, tier, seed, "exploration", col, RULE, t0, sys.modules[MOD],
                       assumptions=["the transport is the fake socket of vf/msref/transport.py: recv(n) returns at most n bytes and at most up to the next "
                                    "scheduled boundary; an empty queue is a read timeout",
                                    "decoding correctness is C09/C17's subject; here only independence of the schedule and exact consumption"],
                       extra={"exhaustive_part": "all single cuts for every generated reply; all pairs of cuts for replies of at most 48 bytes; caps 1,2,3,7,64"})
