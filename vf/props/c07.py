"""C07 - Extension use is gated by require."""

import sys

from hypothesis import given, seed as hseed, strategies as st

from .. import core, impl, pspace
from ..refsieve import analyze, lex, parse_generic, construct_extension_map, string_value, VALID, INVALID, UNSPEC
from ..gen import scripts as S

PROP = "C07"
MOD = __name__

RULE = ("forward: every input of C01's spaces that parse accepts (irregular ones included): pre-order walk of the reference "
        "generic tree and of Parser.result with a frozen (command|tag|match-type -> extension) table, each use must follow "
        "a require naming it (a quarter of the parses are preceded by a hand-built require completed through the public "
        "commands API, and the needed extensions are also offered as the lines of one multi-line capability string); converse: for generated VALID scripts, every required extension (and random subsets) is "
        "removed from the require commands and parse must return False with \"extension '<e>' not loaded\" for the first "
        "construct (reference token order) that needs a removed extension. Non-trivial = script uses >= 1 extension-bound "
        "construct; distinct by source.")

EXTMAP = construct_extension_map()
ALL_EXTS = ["fileinto", "reject", "envelope", "body", "vacation", "vacation-seconds", "copy", "mailbox",
            "imap4flags", "relational", "regex", "date", "variables"]


def walk_uses(nodes, loaded, out, depth=0, pos="top"):
    """Pre-order walk in source order. Appends (construct, ext, missing?, position)."""
    for name, args, tests, children in nodes:
        if name == b"require":
            _walk_tests(tests, loaded, out, pos)
            for a in args:
                if a[0] == "str":
                    vals = [a[1]]
                elif a[0] == "list":
                    vals = list(a[1])
                else:
                    continue
                for v in vals:
                    if v[:1] == b'"':
                        loaded.add(string_value(v).decode("utf-8", "replace"))
            continue
        _node_uses(name, args, loaded, out, pos)
        _walk_tests(tests, loaded, out, "testlist" if len(tests) > 1 else pos)
        if children:
            walk_uses(children, loaded, out, depth + 1, "nested")


def _node_uses(name, args, loaded, out, pos):
    ext = EXTMAP.get(("cmd", name))
    if ext:
        out.append((name.decode("latin-1"), ext, ext not in loaded, pos))
    for a in args:
        if a[0] == "tag":
            ext = EXTMAP.get(("tag", name, a[1]))
            if ext:
                out.append((name.decode("latin-1") + " " + a[1].decode("latin-1"), ext, ext not in loaded, pos))


def _walk_tests(tests, loaded, out, pos):
    for name, args, sub, _ in tests:
        _node_uses(name, args, loaded, out, pos)
        _walk_tests(sub, loaded, out, "testlist" if len(sub) > 1 else pos)


_REUSED = []


def reused_parser():
    """One long-lived Parser per worker process: gating must not depend on
    what the same Parser object parsed before."""
    if not _REUSED:
        _REUSED.append(impl.Parser())
    return _REUSED[0]


def api_history(text):
    """For a quarter of the inputs (chosen by the input's hash, so that a replay
    does the same) the process does, just before parsing, what an application
    building commands through the public commands API does: it completes a
    hand-built require naming every extension, which is how that API allows
    get_command_instance() to hand out extension commands.  What was loaded that
    way must not count as the *script's* require."""
    if core.h64(text) % 4:
        return False
    from sievelib import commands as C
    req = C.get_command_instance("require")
    req.check_next_arg("stringlist", ['"%s"' % e for e in ALL_EXTS])
    req.complete_cb()
    try:
        C.get_command_instance("fileinto").check_next_arg("string", '"x"')
    except Exception:  # noqa: BLE001 -- only the side effect matters here
        pass
    return True


def forward(text):
    api_history(text)
    o = impl.parse_outcome(text, parser=reused_parser())
    if o.verdict is not True or o.exc is not None:
        return "rejected", [], []
    r = analyze(text)
    nodes, consumed, err = parse_generic(r.tokens)
    fails = []
    uses = []
    walk_uses(nodes, set(), uses)
    for what, ext, missing, pos in uses:
        if missing:
            fails.append(("ungated-use|%s|needs=%s" % (what, ext), {"text": text, "construct": what, "extension": ext, "tree": "reference"}))
            break
    try:
        iuses = []
        walk_uses(impl.forest_of(o.result), set(), iuses)
        for what, ext, missing, pos in iuses:
            if missing:
                fails.append(("ungated-use|%s|needs=%s" % (what, ext), {"text": text, "construct": what, "extension": ext, "tree": "impl"}))
                break
    except Exception:  # noqa: BLE001 -- tree shape problems are C03's business
        pass
    return "accepted", uses, fails


def _fwd(text, src, col):
    status, uses, fails = forward(text)
    if core.h64(text) % 4 == 0:
        col.classes["history:commands-api"] += 1
    if status == "rejected":
        col.case(classes=("rejected",))
        return
    nt = bool(uses)
    classes = ["src:" + src, "accepted"]
    for what, ext, missing, pos in uses:
        classes.append("ext:" + ext)
        classes.append("pos:" + pos)
        if any(ch.isupper() for ch in text.decode("latin-1")) and what.split(" ")[-1].startswith(":"):
            pass
    sample = None
    if nt and col.evals % 293 == 0:
        sample = {"direction": "forward", "text": text, "uses": [[u[0], u[1]] for u in uses]}
    col.case(key=None if src in ("blind", "guided") else text, nontrivial=nt, classes=classes, sample=sample)
    seen = set()
    for b, d in fails:
        if b not in seen:
            seen.add(b)
            col.fail(b, {"text": text, "dir": "forward"}, d)


def judge(text, meta, col):
    if meta["src"] == "layout":
        for v in meta["variants"]:
            _fwd(v, "layout", col)
        return
    _fwd(text, meta["src"], col)


# ---------------------------------------------------------------------------
# converse


def strip_exts(toks, remove):
    """Remove the extension names in `remove` from every require command of the
    token list (dropping a require whose list becomes empty)."""
    out = []
    i = 0
    n = len(toks)
    while i < n:
        if toks[i].lower() == b"require":
            j = i + 1
            names = []
            while j < n and toks[j] != b";":
                if toks[j][:1] == b'"':
                    names.append(toks[j])
                j += 1
            keep = [x for x in names if string_value(x).decode() not in remove]
            if keep:
                out.append(toks[i])
                if len(keep) == 1 and len(names) == 1:
                    out.append(keep[0])
                else:
                    out.append(b"[")
                    for k, x in enumerate(keep):
                        if k:
                            out.append(b",")
                        out.append(x)
                    out.append(b"]")
                out.append(b";")
            i = j + 1
            continue
        out.append(toks[i])
        i += 1
    return out


def converse_case(text, expected_ext=None):
    """text: script with an extension removed. -> (bucket, detail) or None"""
    r = analyze(text)
    # a require that also names capabilities unknown to the table: the reference leaves open whether the
    # require itself is refused, but the script is invalid either way (only the message is not pinned then)
    unknown_cap = (r.verdict == UNSPEC and r.reason == "unknown-extension+extension-not-loaded"
                   and all(w == "unknown-extension" for _, w in r.unspec))
    if not unknown_cap and (r.verdict != INVALID or r.reason != "extension-not-loaded"):
        return "skip", None
    ext = r.info
    api_history(text)
    o = impl.parse_outcome(text, parser=reused_parser())
    if o.exc is not None:
        return "skip", None  # C02's business
    tok = r.tokens[r.bad]
    what = tok.text.lower().decode("latin-1")
    if o.verdict is not False:
        return "fail", ("removed-extension-accepted|needs=%s|at=%s" % (ext, what), {"text": text, "extension": ext, "impl": o.summary()})
    if unknown_cap:
        return "ok", None
    want = "extension '%s' not loaded" % ext
    if not (o.error or "").endswith(want):
        return "fail", ("wrong-message|needs=%s|at=%s" % (ext, what), {"text": text, "expected_suffix": want, "error": o.error})
    return "ok", None


def converse_worker(arg):
    sd, n, depth = arg
    col = core.Collector()

    @pspace.hyp_settings(n)
    @hseed(sd)
    @given(st.data())
    def body(data):
        toks = data.draw(S.valid_script(hostile=False, maxdepth=depth, maxcmds=4))
        base = S.canonical(toks)
        r = analyze(base)
        if r.verdict != VALID:
            col.notes["generator-produced-non-VALID"] += 1
            return
        used = []
        for _, ext, _ in r.uses:
            if ext not in used:
                used.append(ext)
        if not used:
            col.case(classes=("converse:no-extension",))
            return
        # the needed extensions named on the lines of ONE multi-line string: that is a
        # single capability string (no extension has such a name), not several requires
        if len(used) > 1 or data.draw(st.booleans()):
            names = list(used) + data.draw(st.lists(st.sampled_from(ALL_EXTS), max_size=2))
            order = data.draw(st.permutations(names))
            ml = S.multiline("\n".join(order), data.draw(st.sampled_from([b"\n", b"\r\n"])))
            rest = strip_exts(toks, set(ALL_EXTS))
            form = data.draw(st.integers(0, 2))
            head = [b"require", ml, b";"] if form == 0 else [b"require", b"[", ml, b"]", b";"] if form == 1 else \
                [b"require", b"[", b'"comparator-i;octet"', b",", ml, b"]", b";"]
            if len(order) > 1:
                _fwd(S.canonical(head + rest), "reqlines", col)
                col.classes["converse:require-lines"] += 1
        subsets = [[e] for e in used]
        if len(used) > 1:
            subsets.append(data.draw(st.lists(st.sampled_from(used), min_size=2, unique=True)))
        for rem in subsets:
            mt = strip_exts(toks, set(rem))
            if data.draw(st.integers(0, 2)) == 0:
                # a require naming a capability that is merely spelled like the removed extension does not name it
                alike = []
                for e in rem:
                    alike.append(data.draw(st.sampled_from([e.upper(), e.capitalize(), e + " ", " " + e, e.replace("-", "_") + "s", "comparator-" + e,
                                                            e[:-1] + e[-1].upper(), e + "\\0"])))
                alike = [b'"' + a.encode() + b'"' for a in alike]
                head = [b"require"] + ([alike[0]] if len(alike) == 1 and data.draw(st.booleans()) else
                                       [b"["] + [t for a in alike for t in (a, b",")][:-1] + [b"]"]) + [b";"]
                mt = head + mt
                col.classes["converse:look-alike-capability"] += 1
            if data.draw(st.booleans()):
                text = data.draw(S.layout(mt))
            else:
                text = S.canonical(mt)
            status, f = converse_case(text)
            classes = ["src:converse", "converse:" + status] + ["removed:" + e for e in rem]
            sample = None
            if col.evals % 211 == 0:
                sample = {"direction": "converse", "removed": rem, "text": text}
            col.case(key=text, nontrivial=status != "skip", classes=classes, sample=sample)
            if status == "fail":
                col.fail(f[0], {"text": text, "dir": "converse"}, f[1])

    body()
    return col


def replay(case):
    if case.get("dir") == "converse":
        status, f = converse_case(case["text"])
        return [f] if status == "fail" else []
    _, _, fails = forward(case["text"])
    return fails


def shrink(case, bucket, budget):
    toks = [t.text + (b"\n" if t.kind == "mls" else b"") for t in lex(case["text"]).tokens]

    def still(ts):
        c = dict(case)
        c["text"] = b" ".join(ts)
        return any(b == bucket for b, _ in replay(c))

    if not still(toks):
        return None
    c = dict(case)
    c["text"] = b" ".join(core.ddmin(toks, still, budget))
    return c


def main(tier, seed, t0):
    quick = tier == "quick"
    col = pspace.run(MOD, tier, seed, overrides=dict(blind=2 if quick else 3))
    col.merge(core.run_shards(converse_worker, [(seed * 1000 + 400 + k, 200 if quick else 3000, 3 if quick else 5) for k in range(16)]))
    need = ["ext:" + e for e in ALL_EXTS] + ["removed:" + e for e in ALL_EXTS] + ["pos:top", "pos:nested", "pos:testlist", "converse:ok", "converse:require-lines", "converse:look-alike-capability", "history:commands-api"]
    missing = [c for c in need if not col.classes.get(c)]
    if missing:
        raise core.HarnessError("generator classes empty: %s" % missing)
    col.exhaustive = False
    return core.finish(PROP, tier, seed, "exploration", col, RULE, t0, sys.modules[MOD],
                       assumptions=["every worker process parses all its inputs with one long-lived Parser object (a fresh Parser per input would hide extensions leaking from one parse to the next)",
                                    "frozen extension table vf/refsieve/table.py (13 extensions; command, tag and match-type bindings from the RFCs)",
                                    "the first missing extension is determined by the reference recogniser's token order"],
                       extra={"bounds": pspace.BOUNDS[tier]})
