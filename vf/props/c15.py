"""C15 - The client's view of the server stays correct over whole sessions."""

import collections
import sys

import hypothesis
from hypothesis import strategies as st
from hypothesis.stateful import RuleBasedStateMachine, rule, initialize, run_state_machine_as_test

from .. import core
from ..msref import wire, replies as R
from ..msref.server import RefServer, DrawChooser, ListChooser, Chooser
from ..msref.transport import Session

PROP = "C15"
MOD = __name__

RULE = ("Hypothesis RuleBasedStateMachine (<= 40 steps): connect with a drawn SASL mechanism, then any script operation with "
        "names from a pool of 5 (incl. non-ASCII, a space, a quote) and bodies from the C17 generator, against the executable "
        "reference server, which draws per reply the string encodings (quoted/literal), OK variants / response codes / texts, NO "
        "outcomes permitted by its state (nonexistent, active, already exists, quota, refused script) and the recv() segmentation; "
        "oracle after every step: client result == answer to that command computed from the server's abstract reply and store, an "
        "independent model of intended effects == server store, protocol-violation log empty, receive queue empty; at the end "
        "listscripts/getscript of every name agree with the store. Non-trivial = session with >= 5 operations including a NO "
        "outcome and a literal; distinct by history.")

NAMES = ["main", "vacation script", "résumé", 'q"uote', "b\\s", "{3}", "trail\\", 'endq"', "ACTIVE", '\\"', "active one", "OK", "no"]
MECHS = [["PLAIN"], ["LOGIN"], ["OAUTHBEARER"], ["DIGEST-MD5"], ["SCRAM-SHA-1", "LOGIN", "PLAIN"]]


class Sess:
    """One session: interpreter over operations, shared by generation and replay."""

    def __init__(self, setup, chooser):
        self.setup = setup
        self.srv = RefServer({"sasl": setup["sasl"], "version": setup["version"], "password": "secret", "maxscripts": 4, "maxsize": 400,
                              "starttls": bool(setup.get("starttls")),
                              "scripts": [(b"main", b"keep;\r\n")] if setup.get("preload") else [], "active": b"main" if setup.get("preload") else None},
                             chooser)
        self.s = Session(self.srv, schedule=list(setup["schedule"]), cap=setup["cap"])
        self.model = collections.OrderedDict((n, b) for n, b in self.srv.scripts.items())
        self.model_active = self.srv.active
        self.fails = []
        self.steps = []
        self.had_no = False
        self.had_literal = False
        r = self.s.call("connect", "user", "secret", starttls=bool(setup.get("starttls")))
        if r != ("ret", True):
            self.fails.append(("connect-fails|mech=%s" % setup["sasl"][0], {"result": r, "violations": self.srv.violations}))

    def step(self, op, args):
        srv, s = self.srv, self.s
        self.steps.append({"op": op, "args": list(args)})
        nrep = len(srv.replies)
        nlog = len(srv.log)
        before = srv.snapshot()
        got = s.call(op, *args)
        reps = srv.replies[nrep:]
        cmds = [c for _, c in srv.log[nlog:]]
        det = {"setup": self.setup, "steps": list(self.steps), "op": op, "args": list(args), "got": got,
               "server_replies": [{"verb": r["verb"], "status": r["status"], "code": r["code"], "text": r["text"]} for r in reps],
               "commands": [c.verb for c in cmds]}
        if any(r["status"] == b"NO" for r in reps):
            self.had_no = True
        if any(b"{" in d for _, d in s.sock.writes[-3:]):
            self.had_literal = True
        emulated = op == "renamescript" and not self.setup["version"]
        if op == "checkscript" and not self.setup["version"]:
            if cmds:
                self.fails.append(("checkscript-sent-without-VERSION", det))
            return
        # 1. protocol
        if srv.violations:
            self.fails.append(("server-logged-protocol-violation|%s|%s" % (op, srv.violations[0][0]), dict(det, violations=srv.violations)))
            return
        if s.sock.inq:
            self.fails.append(("unread-bytes-after-call|%s" % op, dict(det, leftover=bytes(s.sock.inq))))
            return
        if not emulated and len(cmds) != 1:
            self.fails.append(("not-one-command-per-call|%s|%d" % (op, len(cmds)), det))
            return
        # 2. result is the answer to this call's command
        if not emulated:
            rep = reps[-1]
            stt = rep["status"]
            if stt == b"OK":
                if op == "listscripts":
                    act = srv.active.decode("utf-8") if srv.active is not None else None
                    exp = ("ret", (act, [n.decode("utf-8") for n in srv.scripts if n != srv.active]))
                elif op == "capability":
                    exp = None
                    if got[0] != "ret" or got[1] is None:
                        self.fails.append(("result-is-not-the-answer-to-this-command|capability|OK", det))
                        return
                elif op == "getscript":
                    exp = ("ret", ("lines", [x.decode("utf-8") for x in wire.split_lines(srv.scripts[args[0].encode("utf-8")])]))
                else:
                    exp = ("ret", True)
            else:
                exp = ("ret", None if op in ("listscripts", "getscript", "capability") else False)
            if exp is not None and not R.matches(exp, got):
                self.fails.append(("result-is-not-the-answer-to-this-command|%s|%s" % (op, stt.decode()), dict(det, expected=exp)))
                return
            if stt == b"NO":
                code = rep["code"][0] if rep["code"] else b""
                if s.client.errcode != code or (s.client.errmsg or b"") != (rep["text"] or b""):
                    self.fails.append(("errcode/errmsg-not-from-this-reply|%s" % op, dict(det, errcode=s.client.errcode, errmsg=s.client.errmsg)))
            ok = stt == b"OK"
        else:
            ok = got == ("ret", True)
        # 3. independent model of intended effects
        m = self.model
        if ok:
            if op == "putscript":
                m[args[0].encode("utf-8")] = args[1].encode("utf-8")
            elif op == "deletescript":
                m.pop(args[0].encode("utf-8"), None)
            elif op == "setactive":
                self.model_active = args[0].encode("utf-8") or None
            elif op == "renamescript":
                old, new = args[0].encode("utf-8"), args[1].encode("utf-8")
                if old in m:
                    items = [(new if k == old else k, v) for k, v in m.items()]
                    if emulated:
                        body = m[old]
                        items = [(k, v) for k, v in m.items() if k != old] + [(new, body)]
                    self.model = m = collections.OrderedDict(items)
                    if self.model_active == old:
                        self.model_active = new
        want = {n: wire.split_lines(b) for n, b in m.items()}
        have = {n: ls for n, ls in srv.snapshot()["scripts"]}
        if want != have or self.model_active != srv.active:
            if not (emulated and not ok):
                self.fails.append(("server-state-differs-from-intended-effects|%s" % op, dict(det, intended={"scripts": want, "active": self.model_active},
                                                                                             server=srv.snapshot(), before=before)))
            else:
                # a failed emulation may leave a copy behind; resynchronise the model, C14 judges safety
                self.model = collections.OrderedDict((n, b) for n, b in srv.scripts.items())
                self.model_active = srv.active

    def finish(self):
        if self.fails:
            return
        srv, s = self.srv, self.s
        srv.chooser = Chooser()  # final read-back uses default encodings (no more draws)
        got = s.call("listscripts")
        act = srv.active.decode("utf-8") if srv.active is not None else None
        exp = ("ret", (act, [n.decode("utf-8") for n in srv.scripts if n != srv.active]))
        det = {"setup": self.setup, "steps": list(self.steps)}
        if not R.matches(exp, got):
            self.fails.append(("final-listing-differs-from-store", dict(det, got=got, expected=exp)))
            return
        for n, b in list(srv.scripts.items()):
            g = s.call("getscript", n.decode("utf-8"))
            e = ("ret", ("lines", [x.decode("utf-8") for x in wire.split_lines(b)]))
            if not R.matches(e, g):
                self.fails.append(("final-script-differs-from-store", dict(det, name=n, got=g)))
                return
        if srv.violations:
            self.fails.append(("server-logged-protocol-violation|final|%s" % srv.violations[0][0], dict(det, violations=srv.violations)))

    def close(self):
        self.s.close()


def run_recorded(case):
    sess = Sess(case["setup"], ListChooser(case["choices"]))
    for stp in case["steps"]:
        if sess.fails:
            break
        sess.step(stp["op"], tuple(stp["args"]))
    sess.finish()
    sess.close()
    return sess.fails


def worker(arg):
    sd, n, nsteps = arg
    col = core.Collector()

    class Machine(RuleBasedStateMachine):
        def __init__(self):
            super().__init__()
            self.sess = None
            self.chooser = None
            self.aborted = False

        @initialize(data=st.data(), sasl=st.sampled_from(MECHS), version=st.sampled_from([True, True, False]),
                    schedule=st.lists(st.integers(1, 9), max_size=30), cap=st.sampled_from([None, None, 1, 2, 5, 16]), preload=st.booleans(),
                    starttls=st.sampled_from([False, False, True]))
        def start(self, data, sasl, version, schedule, cap, preload, starttls):
            self.chooser = DrawChooser(data)
            self.aborted = True  # until the session is set up completely
            self.sess = Sess({"sasl": sasl, "version": version, "schedule": schedule, "cap": cap, "preload": preload, "starttls": starttls}, self.chooser)
            self.aborted = False

        def _do(self, data, op, args):
            if self.sess is None or self.sess.fails:
                return
            self.chooser.data = data
            try:
                self.sess.step(op, args)
            except BaseException:
                # Hypothesis stopped the example in the middle of a draw (data
                # budget exhausted): the session is half-way through a
                # command and must not be judged
                self.aborted = True
                raise

        @rule(data=st.data(), name=st.sampled_from(NAMES), body=R.script_body())
        def putscript(self, data, name, body):
            try:
                text = body.decode("utf-8")
            except UnicodeDecodeError:
                return
            self._do(data, "putscript", (name, text))

        @rule(data=st.data(), name=st.sampled_from(NAMES))
        def getscript(self, data, name):
            self._do(data, "getscript", (name,))

        @rule(data=st.data())
        def listscripts(self, data):
            self._do(data, "listscripts", ())

        @rule(data=st.data(), name=st.sampled_from(NAMES + [""]))
        def setactive(self, data, name):
            self._do(data, "setactive", (name,))

        @rule(data=st.data(), name=st.sampled_from(NAMES))
        def deletescript(self, data, name):
            self._do(data, "deletescript", (name,))

        @rule(data=st.data(), old=st.sampled_from(NAMES), new=st.sampled_from(NAMES))
        def renamescript(self, data, old, new):
            self._do(data, "renamescript", (old, new))

        @rule(data=st.data(), name=st.sampled_from(NAMES), size=st.sampled_from([0, 10, 399, 401, 10 ** 9]))
        def havespace(self, data, name, size):
            self._do(data, "havespace", (name, size))

        @rule(data=st.data())
        def capability(self, data):
            self._do(data, "capability", ())

        @rule(data=st.data(), body=R.script_body())
        def checkscript(self, data, body):
            try:
                text = body.decode("utf-8")
            except UnicodeDecodeError:
                return
            self._do(data, "checkscript", (text,))

        def teardown(self):
            sess = self.sess
            if sess is None:
                return
            if self.aborted:
                sess.close()
                col.notes["examples-aborted-by-hypothesis"] += 1
                return
            sess.finish()
            sess.close()
            nt = len(sess.steps) >= 5 and sess.had_no and sess.had_literal
            case = {"setup": sess.setup, "steps": sess.steps, "choices": self.chooser.record}
            classes = ["mech:" + sess.setup["sasl"][0], "version:%s" % sess.setup["version"], "cap:%s" % sess.setup["cap"], "starttls:%s" % bool(sess.setup.get("starttls"))]
            if sess.had_no:
                classes.append("had-NO")
            classes += ["op:" + o for o in {x["op"] for x in sess.steps}]
            sample = {"setup": sess.setup, "steps": sess.steps} if nt and col.evals % 17 == 0 else None
            col.case(key=repr(case), nontrivial=nt, classes=classes, sample=sample)
            for b, d in sess.fails[:1]:
                col.fail(b, case, d, size=len(sess.steps) * 1000 + len(repr(sess.steps)))

    run_state_machine_as_test(
        hypothesis.seed(sd)(Machine),
        settings=hypothesis.settings(max_examples=n, stateful_step_count=nsteps, database=None, deadline=None,
                                     report_multiple_bugs=False, suppress_health_check=list(hypothesis.HealthCheck),
                                     phases=[hypothesis.Phase.generate]))
    return col


def replay(case):
    return run_recorded(case)


def shrink(case, bucket, budget):
    def still(steps):
        c = dict(case)
        c["steps"] = steps
        return any(b == bucket for b, _ in run_recorded(c))

    c = dict(case)
    c["steps"] = core.ddmin(case["steps"], still, budget)
    return c


def main(tier, seed, t0):
    quick = tier == "quick"
    col = core.run_shards(worker, [(seed * 1000 + 1900 + k, 120 if quick else 2500, 40) for k in range(16)])
    need = ["starttls:True", "starttls:False", "mech:PLAIN", "mech:LOGIN", "mech:OAUTHBEARER", "mech:DIGEST-MD5", "version:True", "version:False", "had-NO",
            "op:putscript", "op:getscript", "op:listscripts", "op:renamescript", "op:deletescript", "op:setactive", "op:havespace", "op:checkscript"]
    missing = [c for c in need if not col.classes.get(c)]
    if missing:
        raise core.HarnessError("generator classes empty: %s" % missing)
    col.exhaustive = False
    return core.finish(PROP, tier, seed, "exploration", col, RULE, t0, sys.modules[MOD],
                       assumptions=["reference server vf/msref/server.py: strict RFC 5804 command parser, script store, legal command order, violation log",
                                    "a failed emulated rename may leave a copy behind (C14 judges its safety); the model is resynchronised after such a step"])
