"""C03 - Accepted scripts are represented faithfully: nothing dropped or invented."""

import sys

from .. import core, impl, pspace
from ..refsieve import analyze, lex, parse_generic, TABLE
from ..refsieve.validate import VALID
from ..gen import tokens as T

PROP = "C03"
MOD = __name__

RULE = ("every input of C01's spaces (exhaustive token sequences, generated scripts, mutants, layout variants) that "
        "Parser.parse accepts, minus inputs filling one optional tag slot twice, plus valid scripts of 64 KiB ... 4 MiB (sizes on and around "
        "powers of two, padded with comments or blank lines) through parse and parse_file; oracle: harness-side walk of Parser.result "
        "== tree of an independent RFC 5228 section 8.2 generic-grammar parser (names, flat raw argument sequence, tests, "
        "children, order); every third accepted input again on a Parser that parsed another script first; on reference-VALID inputs each tag has a recorded parameter exactly when its table slot carries one. Non-trivial = accepted with >= 2 commands or >= 1 argument; distinct by source text.")


def count_nodes(nodes):
    n = 0
    a = 0
    for nm, args, tests, children in nodes:
        n += 1
        a += len(args)
        tn, ta = count_nodes(tests)
        n += tn
        a += ta
        if children:
            cn, ca = count_nodes(children)
            n += cn
            a += ca
    return n, a


def first_diff(a, b, path="/"):
    """Describe the first difference between two forests."""
    if len(a) != len(b):
        return "%s: %d nodes vs %d" % (path, len(a), len(b)), "count"
    for i, (x, y) in enumerate(zip(a, b)):
        p = "%s%d:%s" % (path, i, x[0].decode("latin-1"))
        if x[0] != y[0]:
            return "%s name %r vs %r" % (p, x[0], y[0]), "name"
        if x[1] != y[1]:
            return "%s args %r vs %r" % (p, x[1], y[1]), "args"
        d = first_diff(list(x[2]), list(y[2]), p + "/T")
        if d:
            return d[0], "tests-" + d[1] if not d[1].startswith(("tests", "children")) else d[1]
        if (x[3] is None) != (y[3] is None):
            return "%s block %r vs %r" % (p, x[3], y[3]), "block"
        if x[3] is not None:
            d = first_diff(list(x[3]), list(y[3]), p + "/C")
            if d:
                return d[0], "children-" + d[1] if not d[1].startswith(("tests", "children")) else d[1]
    return None


def parse_via_file(text):
    """Outcome of Parser.parse_file on a temporary file holding text."""
    import os
    work = os.path.join(core.ROOT, ".work")
    os.makedirs(work, exist_ok=True)
    path = os.path.join(work, "c03-%d.sieve" % os.getpid())
    with open(path, "wb") as fp:
        fp.write(text)
    o = impl.Outcome()
    o.exc = o.exc_msg = o.error = o.error_pos = o.result = None
    o.steps = -1
    p = impl.Parser()
    o.parser = p
    try:
        core.guard_enter(text)
        with impl.cpu_guard():
            o.verdict = p.parse_file(path)
    except Exception as e:  # noqa: BLE001
        o.verdict = None
        o.exc = impl.exc_bucket(e)
    finally:
        core.guard_exit()
        try:
            os.unlink(path)
        except OSError:
            pass
    if o.verdict is True:
        o.result = getattr(p, "result", None)
    return o


TOKENS_NOT_PINNED = ("text: without well-formed multi-line block", "lone CR in multi-line", "lone CR", "TEXT: not lower case",
                     "CR inside hash comment")


# what a long-lived Parser may have seen last: rejected inside a block / test list / string list, or accepted
DISTURBERS = [b'if true { if false { keep; } foo; }', b'if true { keep', b'if anyof (true,', b'if header ["a", "b"', b'keep; @',
              b'require ["fileinto"]; if true { fileinto "x"; ', b'if true { keep; } else {', b'keep;', b'if true { keep; } elsif true { stop; }',
              b'if not', b'if allof (not exists "a", anyof (true, false)) { keep "x"; }', b'require ["fileinto"]; fileinto :copy "x";']


def parse_after(text, prev):
    p = impl.Parser()
    impl.parse_outcome(prev, parser=p)
    return impl.parse_outcome(text, parser=p)


def tag_param_faults(forest):
    out = []

    def walk(node):
        name, (groups, _pos), tests, children = node
        e = TABLE.get(name)
        if e is not None:
            for tag, param in groups:
                for sl in e.slots:
                    if tag in sl.tags:
                        want = sl.param is not None and (sl.valid_for is None or tag in sl.valid_for)
                        if want != (param is not None):
                            out.append((name, tag, want))
        for t in tests:
            walk(t)
        for c in children or ():
            walk(c)

    for n in forest:
        walk(n)
    return out


def compare(text, via_file=False, prev=None):
    """Returns (status, bucket, detail). status: 'skip' / 'ok' / 'fail'."""
    o = parse_via_file(text) if via_file else parse_after(text, prev) if prev is not None else impl.parse_outcome(text)
    if o.verdict is not True or o.exc is not None:
        return "rejected", None, None, None
    r = analyze(text)
    if any(w == "repeated-tag" for _, w in r.unspec):
        return "skip-repeated-tag", None, None, None
    if any(w in TOKENS_NOT_PINNED for _, w in r.unspec):
        # where one token ends and the next begins is itself unspecified here (a
        # multi-line block with bare CR line breaks, 'text:' that starts no
        # well-formed block): the reference has no tree to compare with
        return "skip-token-boundaries-unspecified", None, None, None
    nodes, consumed, err = parse_generic(r.tokens)
    if err is not None or consumed != len(r.tokens):
        return "skip-ungrammatical", None, None, None
    try:
        got = [impl.norm_tree(t) for t in impl.forest_of(o.result)]
    except Exception as e:  # noqa: BLE001
        return "fail", "walk-failed|" + type(e).__name__, {"text": text, "exc": repr(e)}, None
    exp = [impl.norm_tree(t) for t in nodes]
    d = first_diff(exp, got)
    if d is None:
        if r.verdict == VALID:
            # "every tagged argument with its parameter": on a script of the supported language the frozen
            # table says which tags carry one; the result must record exactly those as tag + parameter
            bad = tag_param_faults(impl.forest_of(o.result, grouped=True))
            if bad:
                name, tag, want = bad[0]
                return ("fail", "tag-parameter-%s|at=%s|tag=%s" % ("not-attached" if want else "invented", name.decode(), tag.decode()),
                        {"text": text, "command": name, "tag": tag, "table_says_tag_takes_parameter": want}, exp)
        return "ok", None, None, exp
    where = d[0].split(" ")[0]
    cmd = where.rsplit(":", 1)[-1].split("/")[0]
    return "fail", "tree-differs|%s|at=%s" % (d[1], cmd), {"text": text, "diff(expected vs impl)": d[0], "ref_verdict": r.verdict}, exp


def _one(text, src, col):
    status, bucket, detail, exp = compare(text)
    if status == "rejected":
        col.case(classes=("rejected",))
        return
    if status.startswith("skip"):
        col.case(classes=(status,))
        return
    n, a = count_nodes(exp) if exp is not None else (0, 0)
    nt = exp is not None and (len(exp) >= 2 or a >= 1)
    classes = ["src:" + src, "accepted"]
    if exp is not None:
        flat = repr(exp)
        if any(c[3] for c in exp):
            classes.append("has-block")
        if "'list'" in flat:
            classes.append("list-arg")
        if "'tag'" in flat:
            classes.append("tag")
        if not text.endswith((b"\n", b" ")):
            classes.append("no-trailing-newline")
    sample = None
    if nt and col.evals % 499 == 0:
        sample = {"text": text, "tree": [impl.tree_json(t) for t in exp][:3]}
    col.case(key=None if src in ("blind", "guided") else text, nontrivial=nt, classes=classes, sample=sample)
    if status == "fail":
        col.fail(bucket, {"text": text}, detail)
        return
    if src in ("gen", "layout", "mutant", "guided") and col.evals % 3 == 0:
        # the same input on a Parser that has parsed something else before: if accepted, the tree must be as faithful
        prev = DISTURBERS[(col.evals // 3) % len(DISTURBERS)]
        st3, b3, d3, _ = compare(text, prev=prev)
        col.cls("via:lived-in-parser")
        if st3 == "fail":
            d3 = dict(d3)
            d3["parsed_before_on_the_same_Parser"] = prev
            col.fail("lived-in-parser|" + b3, {"text": text, "prev": prev}, d3)
    if src in ("gen", "layout", "mutant") and (b"\r" in text or col.evals % 7 == 0):
        # the same input given as a file must yield the same faithful tree
        st2, b2, d2, _ = compare(text, via_file=True)
        col.cls("via:parse_file")
        if st2 == "fail":
            col.fail("parse_file|" + b2, {"text": text, "file": True}, d2)
        elif st2 == "rejected":
            col.fail("parse_file|rejects-what-parse-accepts", {"text": text, "file": True}, {"text": text})


def judge(text, meta, col):
    if meta["src"] == "layout":
        for v in meta["variants"]:
            _one(v, "layout", col)
        return
    _one(text, meta["src"], col)


BIG_SIZES = [65536, 65537, (1 << 20) - 1, 1 << 20, (1 << 20) + 1, (1 << 20) + 4099, (2 << 20) + 3, (4 << 20) + 5]


def big_script(size, variant):
    """A valid script of exactly `size` bytes: commands separated by long hash
    comments (variant 0), bracket comments (1) or blank lines (2), so that any
    byte offset lies in a place where cutting the text would still leave a
    valid script; the last command is different from all others."""
    cmds = [b"keep;", b"stop;", b"discard;", b'redirect "a@example.org";', b"if true { keep; }"]
    last = b'redirect "the-last-command@example.org";\n'
    out = []
    n = 0
    i = 0
    while True:
        c = cmds[i % len(cmds)] + b"\n"
        if variant == 0:
            pad = b"# " + b"p" * 997 + b"\n"
        elif variant == 1:
            pad = b"/* " + b"q" * 994 + b" */\n"
        else:
            pad = b" " * 499 + b"\n" + b"\t" * 499 + b"\n"
        block = c + pad * 7
        if n + len(block) + len(last) + 1200 > size:
            break
        out.append(block)
        n += len(block)
        i += 1
    rest = size - n - len(last)
    filler = b"# " + b"f" * (rest - 3) + b"\n" if rest >= 3 else b" " * rest
    return b"".join(out) + filler + last


def big_worker(arg):
    size, variant = arg
    col = core.Collector()
    text = big_script(size, variant)
    if len(text) != size:
        raise core.HarnessError("big_script produced %d bytes instead of %d" % (len(text), size))
    for via_file in (False, True):
        status, bucket, detail, exp = compare(text, via_file=via_file)
        col.case(key=b"big-%d-%d-%d" % (size, variant, via_file), nontrivial=True, classes=["big-input", "via:parse_file" if via_file else "via:parse"],
                 sample={"big_script_bytes": size, "separator": ["hash comments", "bracket comments", "blank lines"][variant], "via_file": via_file}
                 if size == 1 << 20 else None)
        case = {"big": [size, variant], "file": via_file}
        if status == "rejected":
            col.fail("big-input|valid-script-rejected" + ("|parse_file" if via_file else ""), case, {"bytes": size})
        elif status == "fail":
            detail = dict(detail)
            detail["text"] = "(%d bytes, see big_script(%d, %d))" % (size, size, variant)
            col.fail(("parse_file|" if via_file else "") + "big-input|" + bucket.split("|at=")[0], case, detail)
    return col


def replay(case):
    if case.get("big"):
        col = big_worker(tuple(case["big"]))
        return [(b, f["detail"]) for b, f in col.fails.items()]
    if case.get("file"):
        status, bucket, detail, _ = compare(case["text"], via_file=True)
        if status == "rejected" and compare(case["text"])[0] != "rejected":
            return [("parse_file|rejects-what-parse-accepts", {"text": case["text"]})]
        return [("parse_file|" + bucket, detail)] if status == "fail" else []
    if case.get("prev") is not None:
        status, bucket, detail, _ = compare(case["text"], prev=case["prev"])
        return [("lived-in-parser|" + bucket, detail)] if status == "fail" else []
    status, bucket, detail, _ = compare(case["text"])
    return [(bucket, detail)] if status == "fail" else []


def shrink(case, bucket, budget):
    if case.get("file") or case.get("big") or case.get("prev") is not None:
        return None
    toks = [t.text + (b"\n" if t.kind == "mls" else b"") for t in lex(case["text"]).tokens]

    def still(ts):
        return any(b == bucket for b, _ in replay({"text": b" ".join(ts)}))

    if not still(toks):
        return None
    return {"text": b" ".join(core.ddmin(toks, still, budget))}


def main(tier, seed, t0):
    col = pspace.run(MOD, tier, seed)
    col.merge(core.run_shards(big_worker, [(sz, v) for sz in BIG_SIZES for v in (0, 1, 2)]))
    need = ["big-input", "via:parse_file", "via:lived-in-parser", "accepted", "has-block", "list-arg", "tag", "src:gen", "src:guided", "src:mutant", "src:layout"]
    missing = [c for c in need if not col.classes.get(c)]
    if missing:
        raise core.HarnessError("generator classes empty: %s" % missing)
    col.exhaustive = False
    return core.finish(PROP, tier, seed, "exploration", col, RULE, t0, sys.modules[MOD],
                       assumptions=["generic-grammar parser vf/refsieve/generic.py (RFC 5228 8.2) and lexer vf/refsieve/lexer.py define what was written",
                                    "inputs that fill an optional tag slot twice are skipped (outside the claim)",
                                    "accepted inputs that are not even RFC-grammatical are C01's business and skipped here"],
                       extra={"bounds": pspace.BOUNDS[tier]})
