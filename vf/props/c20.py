"""C20 - Registered custom commands are parsed and printed according to their definition."""

import itertools
import os
import sys

from hypothesis import given, seed as hseed, strategies as st

from .. import core, impl, pspace
from ..refsieve import analyze, TABLE, Entry, Slot, Pos, VALID, INVALID, UNSPEC
from . import c04

PROP = "C20"
MOD = __name__

RULE = ("(classes written with separate or shared extra_arg dict objects, deriving from ActionCommand/TestCommand directly or from another "
        "registered and already used command class) Hypothesis-generated args_definitions of the documented shape (0-4 optional tag slots with 1-2 tags, parameter "
        "absent|string|number|stringlist|[string,stringlist], optional value set, optional valid_for subset; then 1-3 required "
        "arguments of type string/number/stringlist; action or test; with or without extension), each registered under a fresh "
        "name with add_commands; per definition all uses (every subset of slots in up to 3 orders, each tag, lower/upper case, "
        "string vs list forms) and single-edit invalid variants are enumerated; oracle: reference recogniser interpreting a table "
        "entry translated from the same definition, argument names/values in the tree, print/parse round trip, unregistered "
        "sibling name stays unknown. Non-trivial = definition has >= 1 slot with a parameter; distinct by (definition, use).")

_counter = itertools.count()

STRVALS = [b'"a"', b'"b c"', b'"\\"q\\""', b'""', b'"\xc3\xa9"']
NUMVALS = [b"0", b"15", b"2K"]


@st.composite
def definitions(draw):
    nslots = draw(st.integers(0, 4))
    slots = []
    used_tags = set()
    pool = [":alpha", ":beta", ":gamma", ":delta", ":eps", ":zeta", ":eta", ":theta", ":is", ":over",
            # names that built-in commands also use (some of them bound to an extension there)
            ":copy", ":create", ":flags", ":seconds", ":days", ":comparator", ":regex", ":count", ":subject"]
    for k in range(nslots):
        avail = [t for t in pool if t not in used_tags]
        tags = draw(st.lists(st.sampled_from(avail), min_size=1, max_size=2, unique=True))
        used_tags |= set(tags)
        d = {"name": "slot%d" % k, "type": ["tag"], "values": list(tags), "required": False}
        ptype = draw(st.sampled_from([None, "string", "number", "stringlist", ["string", "stringlist"], ["string"], ["number"]]))
        if ptype is not None:
            extra = {"type": ptype}
            isstr = ptype in ("string", ["string"])
            if isstr and draw(st.booleans()):
                extra["values"] = draw(st.lists(st.sampled_from(['"x"', '"y"', '"long value"', '"i;octet"']), min_size=1, max_size=3, unique=True))
            if ptype in ("number", ["number"]) and draw(st.booleans()):
                extra["values"] = draw(st.lists(st.sampled_from(["0", "15", "2K", "7"]), min_size=1, max_size=3, unique=True))
            if len(tags) == 2 and draw(st.booleans()):
                extra["valid_for"] = [draw(st.sampled_from(tags))]
            d["extra_arg"] = extra
        if draw(st.integers(0, 4)) == 0:
            d["extension"] = draw(st.sampled_from(["copy", "mailbox", "vfext"]))
        slots.append(d)
    npos = draw(st.integers(1, 3))
    pos = []
    for k in range(npos):
        pos.append({"name": "arg%d" % k, "type": draw(st.sampled_from([["string"], ["number"], ["stringlist"], ["string", "stringlist"]])),
                    "required": True})
    role = draw(st.sampled_from(["action", "test"]))
    ext = draw(st.sampled_from([None, None, "vfcustom", "fileinto"]))
    # how the class is written down (no bearing on what the definition means):
    # equal extra_arg dicts may be one shared object; the class may derive from another
    # registered command class (with its own, different definition) that was used before
    share = draw(st.booleans())
    derive = draw(st.sampled_from([None, None, 0, 1, 2, 3, 4]))
    return {"slots": slots, "pos": pos, "role": role, "ext": ext, "share": share, "derive": derive}


def _ptypes(t):
    if isinstance(t, str):
        t = [t]
    out = set()
    for x in t:
        if x == "string":
            out.add("str")
        elif x == "number":
            out.add("num")
        elif x == "stringlist":
            out |= {"str", "list"}
    return tuple(sorted(out))


def to_entry(name, d):
    slots = []
    for s in d["slots"]:
        ex = s.get("extra_arg")
        slots.append(Slot(s["name"], {t.encode(): None for t in s["values"]},
                          param=_ptypes(ex["type"]) if ex else None,
                          values=tuple(v.encode() for v in ex["values"]) if ex and "values" in ex else None,
                          valid_for=tuple(v.encode() for v in ex["valid_for"]) if ex and "valid_for" in ex else None,
                          ext=s.get("extension")))
    pos = [Pos(p["name"], _ptypes(p["type"])) for p in d["pos"]]
    return Entry(name, "command" if d["role"] == "action" else "test", ext=d["ext"], slots=slots, pos=pos)


_SHARED = {}
_PARENT_PROBLEMS = []


def register(d):
    k = next(_counter)
    name = ("vfc%dx%d" if k % 2 else "vf_c%d_%d") % (os.getpid(), k)
    cname = name.capitalize() + "Command"
    base = impl.sl_commands.ActionCommand if d["role"] == "action" else impl.sl_commands.TestCommand
    # "unregistered names remain unknown": the name, in the spellings used later, is tried before its registration
    # (so that whatever the library remembers about an unknown name has to be forgotten when it is registered)
    for sp in (name.encode(), name.encode().upper(), name.capitalize().encode()):
        text = sp + b' "x";' if d["role"] == "action" else b"if " + sp + b' "x" { keep; }'
        o = impl.parse_outcome(text)
        if o.exc is None and o.verdict is not False:
            _PARENT_PROBLEMS.append(("unregistered-name-not-unknown|before-its-registration", {"text": text, "impl": o.summary()}))
    if d.get("derive") is not None:
        # a parent command of the same role with d["derive"] required strings, registered
        # and used once before the class under test is derived from it
        pname = name + "p"
        pattrs = {"args_definition": [{"name": "p%d" % i, "type": ["string"], "required": True} for i in range(d["derive"])]}
        parent = type(pname.capitalize() + "Command", (base,), pattrs)
        impl.sl_commands.add_commands(parent)
        use = pname.encode() + b"".join(b' "v%d"' % i for i in range(d["derive"]))
        text = use + b";" if d["role"] == "action" else b"if " + use + b" { keep; }"
        o = impl.parse_outcome(text)
        if o.verdict is not True:
            # the parent is itself a registered custom command and this is a valid use of it
            _PARENT_PROBLEMS.append(("valid-use-rejected|parent-of-derived-class", {"text": text, "impl": o.summary(),
                                                                                   "definition": pattrs["args_definition"]}))
        base = parent
    slots = [dict(x) for x in d["slots"]]
    if d.get("share"):
        # written with shared constants: equal extra_arg dicts are one object, within the
        # class and across the classes this process has registered
        for sl in slots:
            if "extra_arg" in sl:
                key = repr(sorted(sl["extra_arg"].items()))
                sl["extra_arg"] = _SHARED.setdefault(key, dict(sl["extra_arg"]))
    else:
        for sl in slots:
            if "extra_arg" in sl:
                sl["extra_arg"] = dict(sl["extra_arg"])
    attrs = {"args_definition": slots + [dict(x) for x in d["pos"]]}
    if d["ext"]:
        attrs["extension"] = d["ext"]
    cls = type(cname, (base,), attrs)
    impl.sl_commands.add_commands(cls)
    return name


def value_forms(kinds, values=None):
    """token lists for a value of the given kinds"""
    out = []
    if values:
        return [[v] for v in values]
    if "str" in kinds:
        out += [[STRVALS[0]], [STRVALS[2]], [b"text:\nmulti\n..line\n.\n"]]
    if "list" in kinds:
        out += [[b"[", STRVALS[1], b"]"], [b"[", STRVALS[0], b",", STRVALS[4], b"]"]]
    if "num" in kinds:
        out += [[NUMVALS[1]], [NUMVALS[2]]]
    return out


def wrong_forms(kinds):
    out = []
    if "str" not in kinds:
        out.append([b'"s"'])
    if "list" not in kinds:
        out.append([b"[", b'"s"', b"]"])
    if "num" not in kinds:
        out.append([b"7"])
    return out


def uses_of(name, entry, rnd_pick):
    """Yield (kind, arg token list).  kind 'valid' or an invalid-edit label."""
    slots = entry.slots
    n = len(slots)
    nb = name.encode()
    posforms = [value_forms(p.kinds) for p in entry.pos]

    def pos_tokens(pick):
        out = []
        for j, forms in enumerate(posforms):
            out += forms[pick % len(forms)]
            pick //= 2
        return out

    def slot_tokens(s, tag, variant, upper):
        tk = tag.upper() if upper else tag
        out = [tk]
        if s.param and (s.valid_for is None or tag in s.valid_for):
            forms = value_forms(s.param, s.values)
            out += forms[variant % len(forms)]
        return out

    count = 0
    for r in range(n + 1):
        for subset in itertools.combinations(range(n), r):
            orders = [subset, tuple(reversed(subset))]
            if r >= 3:
                orders.append(subset[1:] + subset[:1])
            for oi, order in enumerate(dict.fromkeys(orders)):
                for variant in range(2):
                    args = []
                    for si in order:
                        s = slots[si]
                        tags = sorted(s.tags)
                        tag = tags[(variant + oi) % len(tags)]
                        args += slot_tokens(s, tag, variant + si, upper=(variant == 1 and si % 2 == 0))
                    yield "valid", args + pos_tokens(variant + count)
                    count += 1
    # invalid single edits on a base use with all slots
    base_slots = []
    for si, s in enumerate(slots):
        tag = sorted(s.tags)[0]
        base_slots.append(slot_tokens(s, tag, 0, False))
    base_pos = pos_tokens(0)
    flat = [t for bs in base_slots for t in bs]
    yield "unknown-tag", [b":nosuchtag"] + flat + base_pos
    yield "unknown-tag-after", flat + [b":nosuchtag"] + base_pos
    yield "surplus-string", flat + base_pos + [b'"extra"']
    yield "surplus-number", flat + base_pos + [b"9"]
    yield "surplus-list", flat + base_pos + [b"[", b'"e"', b"]"]
    if slots:
        yield "tag-after-positional", base_pos + base_slots[0]
        if len(entry.pos) > 1:
            first = posforms[0][0]
            yield "tag-between-positionals", flat[len(base_slots[0]):] + first + base_slots[0] + pos_tokens(0)[len(first):]
    for si, s in enumerate(slots):
        tags = sorted(s.tags)
        if len(tags) >= 2:
            others = [t for k, bs in enumerate(base_slots) if k != si for t in bs]
            for a, b in ((tags[0], tags[1]), (tags[1], tags[0])):
                yield "two-tags-of-one-slot", others + slot_tokens(s, a, 0, False) + slot_tokens(s, b, 1, False) + base_pos
                yield "two-tags-of-one-slot", slot_tokens(s, a, 1, False) + others + slot_tokens(s, b, 0, True) + base_pos
    for j, p in enumerate(entry.pos):
        for wf in wrong_forms(p.kinds):
            toks = []
            for k, forms in enumerate(posforms):
                toks += wf if k == j else forms[0]
            yield "ill-typed-positional", flat + toks
    for si, s in enumerate(slots):
        others = [t for k, bs in enumerate(base_slots) if k != si for t in bs]
        for tag in sorted(s.tags):
            takes = s.param and (s.valid_for is None or tag in s.valid_for)
            if takes:
                for wf in wrong_forms(s.param):
                    yield "ill-typed-parameter", others + [tag] + wf + base_pos
                if s.values:
                    yield "value-outside-set", others + [tag, b'"not-in-set"'] + base_pos
                yield "missing-parameter", others + [tag] + base_pos
            elif s.param:
                # tag of the slot that does not take the parameter
                forms = value_forms(s.param, s.values)
                yield "parameter-after-tag-not-valid_for", others + [tag] + forms[0] + base_pos


def wrap(name, entry, args):
    nb = name.encode()
    pre = []
    exts = []
    if entry.ext:
        exts.append(entry.ext)
    for s in entry.slots:
        if s.ext and s.ext not in exts:
            exts.append(s.ext)
    return exts, nb, args


def script(name, entry, args, exts, upper_name=False):
    nb = name.encode().upper() if upper_name else name.encode()
    req = []
    if exts:
        req = [b"require", b"["]
        for i, e in enumerate(exts):
            if i:
                req.append(b",")
            req.append(b'"%s"' % e.encode())
        req += [b"]", b";"]
    if entry.role == "test":
        body = [b"if", nb] + args + [b"{", b"}"]
    else:
        body = [nb] + args + [b";"]
    return b" ".join(req + body)


def find_node(result, name):
    for top in result:
        for node in top.walk():
            if node.name == name:
                return node
    return None


def check_use(name, entry, defn, text, kind, table, known):
    """-> (ref verdict, [(bucket, detail)])"""
    r = analyze(text, table=table, known_exts=known)
    o = impl.parse_outcome(text)
    out = []
    base = {"definition": defn, "text": text, "kind": kind, "ref": r.verdict, "reason": r.reason, "impl": o.summary()}
    if o.exc is not None:
        out.append(("exception|" + o.exc, base))
        return r, out
    if r.verdict == VALID and o.verdict is not True:
        out.append(("valid-use-rejected|" + kind, base))
    elif r.verdict == INVALID and o.verdict is not False:
        out.append(("invalid-use-accepted|%s|%s" % (kind, r.reason), base))
    if r.verdict == VALID and o.verdict is True:
        node = find_node(o.result, name)
        if node is None:
            out.append(("command-missing-from-tree", base))
            return r, out
        # argument names and values: replay the reference's reading of the arguments
        exp_args, exp_extra = expected_arguments(entry, text, name)
        got_args = {k: _norm(v) for k, v in node.arguments.items()}
        got_extra = {k: _norm(v) for k, v in node.extra_arguments.items()}
        if got_args != exp_args or got_extra != exp_extra:
            d = dict(base)
            d.update(expected_arguments=exp_args, expected_extra=exp_extra, got_arguments=got_args, got_extra=got_extra)
            out.append(("arguments-recorded-differently", d))
    if o.verdict is True:
        # whatever is accepted - also a use on which the reference makes no statement - must survive printing
        status, b, d, _ = c04.roundtrip(text)
        if status == "fail":
            d2 = dict(base)
            d2["roundtrip"] = d
            out.append(("roundtrip|" + b + ("" if r.verdict == VALID else "|use-not-VALID"), d2))
    return r, out


def _norm(v):
    if isinstance(v, list):
        return [x.encode() if isinstance(x, str) else x for x in v]
    return v.encode() if isinstance(v, str) else v


def expected_arguments(entry, text, name):
    """Names -> raw values, read off the token stream with the definition."""
    from ..refsieve import lex
    toks = lex(text).tokens
    i = 0
    nb = name.encode()
    while toks[i].text.lower() != nb:
        i += 1
    i += 1
    args = {}
    extra = {}

    def read_value(i):
        if toks[i].kind == "[":
            items = []
            i += 1
            while toks[i].kind != "]":
                if toks[i].kind != ",":
                    items.append(toks[i].text)
                i += 1
            return items, i + 1
        return toks[i].text, i + 1

    pi = 0
    while i < len(toks) and toks[i].kind in ("tag", "str", "mls", "num", "["):
        if toks[i].kind == "tag":
            tag = toks[i].text.lower()
            for s in entry.slots:
                if tag in s.tags:
                    args[s.name] = toks[i].text
                    i += 1
                    if s.param and (s.valid_for is None or tag in s.valid_for):
                        v, i = read_value(i)
                        extra[s.name] = v
                    break
            else:
                i += 1
        else:
            v, i = read_value(i)
            args[entry.pos[pi].name] = v
            pi += 1
    return args, extra


def worker(arg):
    sd, n = arg
    col = core.Collector()

    @pspace.hyp_settings(n)
    @hseed(sd)
    @given(definitions(), st.data())
    def body(d, data):
        name = register(d)
        while _PARENT_PROBLEMS:
            b, det = _PARENT_PROBLEMS.pop()
            col.fail(b, {"definition": d, "args": [], "kind": "parent"}, det)
        entry = to_entry(name, d)
        table = dict(TABLE)
        table[name.encode()] = entry
        known = tuple(set(("vfext", "vfcustom") + tuple(__import__("vf.refsieve", fromlist=["x"]).SUPPORTED_EXTENSIONS)))
        exts = []
        if entry.ext:
            exts.append(entry.ext)
        for s in entry.slots:
            if s.ext and s.ext not in exts:
                exts.append(s.ext)
        has_param = any(s.param for s in entry.slots)
        uses = list(uses_of(name, entry, None))
        if len(uses) > 160:
            keep = data.draw(st.lists(st.integers(0, len(uses) - 1), min_size=120, max_size=120, unique=True))
            uses = [uses[i] for i in sorted(keep)]
        for k, (kind, args) in enumerate(uses):
            text = script(name, entry, args, exts, upper_name=(k % 7 == 3))
            r, fails = check_use(name, entry, d, text, kind, table, known)
            sample = None
            if has_param and col.evals % 503 == 0:
                sample = {"definition": d, "use": text, "kind": kind, "ref": r.verdict}
            col.case(key=repr(d).encode() + text.replace(name.encode(), b"CMD").replace(name.encode().upper(), b"CMD"),
                     nontrivial=has_param, classes=("kind:" + kind, "ref:" + r.verdict, "role:" + d["role"], "written:shared-extra_arg" if d.get("share") else "written:separate-dicts",
                              "written:derived-class" if d.get("derive") is not None else "written:direct-class"), sample=sample)
            for b, det in fails:
                col.fail(b, {"definition": d, "args": args, "kind": kind, "upper": k % 7 == 3}, det)
        # missing require
        if exts:
            for drop in exts:
                rest = [e for e in exts if e != drop]
                kind, args = uses[-1] if uses[-1][0] == "valid" else uses[0]
                # use a valid use that actually needs `drop`
                for kd, ar in uses:
                    if kd != "valid":
                        continue
                    text = script(name, entry, ar, rest)
                    r = analyze(text, table=table, known_exts=known)
                    if r.verdict == INVALID and r.reason == "extension-not-loaded":
                        r, fails = check_use(name, entry, d, text, "missing-require", table, known)
                        col.case(key=None, nontrivial=has_param, classes=("kind:missing-require",))
                        for b, det in fails:
                            col.fail(b, {"definition": d, "args": ar, "kind": "missing-require", "drop": drop}, det)
                        break
        # unregistered sibling
        sib = name + "q"
        text = script(sib, entry, uses[0][1], exts)
        o = impl.parse_outcome(text)
        col.case(key=None, nontrivial=has_param, classes=("kind:unregistered-sibling",))
        if o.exc is None and o.verdict is not False:
            col.fail("unregistered-sibling-not-unknown", {"definition": d, "args": uses[0][1], "kind": "sibling"},
                     {"text": text, "impl": o.summary()})

    body()
    return col


def replay(case):
    d = case["definition"]
    name = register(d)
    entry = to_entry(name, d)
    table = dict(TABLE)
    table[name.encode()] = entry
    from ..refsieve import SUPPORTED_EXTENSIONS
    known = tuple(SUPPORTED_EXTENSIONS) + ("vfext", "vfcustom")
    exts = []
    if entry.ext:
        exts.append(entry.ext)
    for s in entry.slots:
        if s.ext and s.ext not in exts:
            exts.append(s.ext)
    args = case["args"]
    if case["kind"] == "parent":
        out = list(_PARENT_PROBLEMS)
        del _PARENT_PROBLEMS[:]
        return out
    if case["kind"] == "sibling":
        text = script(name + "q", entry, args, exts)
        o = impl.parse_outcome(text)
        if o.exc is None and o.verdict is not False:
            return [("unregistered-sibling-not-unknown", {"text": text, "impl": o.summary()})]
        return []
    if case["kind"] == "missing-require":
        exts = [e for e in exts if e != case["drop"]]
    text = script(name, entry, args, exts, upper_name=case.get("upper", False))
    _, fails = check_use(name, entry, d, text, case["kind"], table, known)
    return fails


def main(tier, seed, t0):
    quick = tier == "quick"
    n = 100 if quick else 1500
    col = core.run_shards(worker, [(seed * 1000 + 600 + k, n) for k in range(16)])
    need = ["kind:valid", "kind:unknown-tag", "kind:surplus-string", "kind:tag-after-positional", "kind:ill-typed-positional",
            "kind:ill-typed-parameter", "kind:value-outside-set", "kind:parameter-after-tag-not-valid_for",
            "kind:missing-require", "kind:unregistered-sibling", "ref:VALID", "ref:INVALID", "role:action", "role:test",
            "written:shared-extra_arg", "written:derived-class"]
    missing = [c for c in need if not col.classes.get(c)]
    if missing:
        raise core.HarnessError("generator classes empty: %s" % missing)
    col.exhaustive = False
    return core.finish(PROP, tier, seed, "exploration", col, RULE, t0, sys.modules[MOD],
                       assumptions=["the harness translates each generated definition into a reference table entry (vf/props/c20.py:to_entry) "
                                    "following README.rst 'Extending the parser' and the built-in definitions",
                                    "uses whose only irregularity is an omitted trailing argument/parameter are UNSPEC (no verdict claim)"])
