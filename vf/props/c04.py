"""C04 - Serialising a parsed script yields an equivalent script (round trip)."""

import sys

from hypothesis import given, seed as hseed, strategies as st

from .. import core, impl, pspace
from ..refsieve import lex
from ..gen import scripts as S

PROP = "C04"
MOD = __name__

RULE = ("every accepted input of C01's spaces plus Hypothesis scripts whose string positions are filled by a value generator "
        "aimed at quoting (escaped quotes, backslashes, brackets, commas, newlines, non-ASCII, multi-line blocks, lists, tag "
        "parameters, nested blocks) and scripts with lists of up to 30 multi-word items / strings of up to 300 words; oracle: tosieve() does not raise, its text is accepted, re-parses to an equal tree "
        "(harness walker, raw values byte-exact) and re-serialises to the same text. Non-trivial = script has a string with a "
        "hostile character, a list, a multi-line value or a tag parameter; distinct by source.")

HOSTILE = set(b'"\\[],(){};#$:\n\r') | set(range(128, 256))


def roundtrip(text):
    """-> (status, bucket, detail, tree)"""
    o = impl.parse_outcome(text)
    if o.verdict is not True or o.exc is not None:
        return "rejected", None, None, None
    try:
        t1 = [impl.norm_tree(t, True) for t in impl.forest_of(o.result, True)]
        text1 = impl.render(o.result)
    except Exception as e:  # noqa: BLE001
        return "fail", "tosieve-raises|" + impl.exc_bucket(e), {"text": text, "exc": repr(e)[:200]}, None
    o2 = impl.parse_outcome(text1)
    if o2.exc is not None:
        return "fail", "reparse-raises|" + o2.exc, {"text": text, "printed": text1, "exc": o2.exc_msg}, t1
    if o2.verdict is not True:
        return "fail", "printed-text-rejected", {"text": text, "printed": text1, "error": o2.error}, t1
    t2 = [impl.norm_tree(t, True) for t in impl.forest_of(o2.result, True)]
    if t1 != t2:
        from .c03 import first_diff
        d = first_diff(t1, t2)
        return "fail", "tree-changed|" + (d[1] if d else "?"), {"text": text, "printed": text1, "diff(original vs reparsed)": d[0] if d else None}, t1
    text2 = impl.render(o2.result)
    if text2 != text1:
        return "fail", "not-a-fixed-point", {"text": text, "printed": text1, "printed2": text2}, t1
    return "ok", None, None, t1


def features(tree_repr, text):
    f = []
    if "'list'" in tree_repr:
        f.append("list")
    if "text:" in tree_repr:
        f.append("multiline")
    if "b':" in tree_repr:
        f.append("tag")
    return f


def _one(text, src, col):
    status, bucket, detail, t1 = roundtrip(text)
    if status == "rejected":
        col.case(classes=("rejected",))
        return
    rep = repr(t1) if t1 is not None else ""
    f = features(rep, text)
    hostile = False
    for tk in lex(text).tokens:
        if tk.kind == "str" and any(c in HOSTILE for c in tk.text[1:-1]):
            hostile = True
            break
    if hostile:
        f.append("hostile-string")
    nt = bool(f)
    sample = None
    if nt and col.evals % 397 == 0:
        sample = {"text": text, "status": status}
    col.case(key=None if src in ("blind", "guided") else text, nontrivial=nt,
             classes=["src:" + src, "accepted"] + ["has:" + x for x in f], sample=sample)
    if status == "fail":
        col.fail(bucket, {"text": text}, detail)


def judge(text, meta, col):
    if meta["src"] == "layout":
        for v in meta["variants"]:
            _one(v, "layout", col)
        return
    _one(text, meta["src"], col)


def values_worker(arg):
    sd, n, depth = arg
    col = core.Collector()

    @pspace.hyp_settings(n)
    @hseed(sd)
    @given(st.data())
    def body(data):
        toks = data.draw(S.valid_script(hostile=True, maxdepth=depth, maxcmds=3))
        _one(S.canonical(toks), "values", col)
        _one(data.draw(S.layout(toks)), "values", col)

    body()
    return col


WORDS = ["click", "here", "to", "claim", "your", "prize", "a\tb", "x  y", " lead", "trail ", "é€", "[tag]", "a,b", '"q"', "text:", "#hash",
         "/*c*/", "semi;colon", "\\", "-", "0123456789" * 3, "w" * 70, "", "\r\n", ".", "{", "}"]


@st.composite
def long_item(draw):
    ws = draw(st.lists(st.sampled_from(WORDS), min_size=1, max_size=8))
    return S.quote(draw(st.sampled_from([" ", " ", "\t", "  ", ", "])).join(ws))


def long_list(draw, lo=1, hi=30):
    items = draw(st.lists(long_item(), min_size=lo, max_size=hi))
    out = [b"["]
    for i, it in enumerate(items):
        if i:
            out.append(b",")
        out.append(it)
    return out + [b"]"]


def long_worker(arg):
    """Lists and strings far longer than a line: up to 30 items of up to 8 words
    (blanks, tabs, doubled blanks, leading/trailing blanks inside the items)."""
    sd, n = arg
    col = core.Collector()

    @pspace.hyp_settings(n)
    @hseed(sd)
    @given(st.data())
    def body(data):
        L = lambda lo=1, hi=30: long_list(data.draw, lo, hi)  # noqa: E731
        Sx = lambda: [data.draw(long_item())]  # noqa: E731
        toks = [b"require", b"[", b'"fileinto"', b",", b'"imap4flags"', b",", b'"vacation"', b",", b'"body"', b",", b'"envelope"', b"]", b";"]
        k = data.draw(st.integers(0, 5))
        if k == 0:
            toks += [b"if", b"header", b":contains"] + L() + L() + [b"{", b"fileinto"] + Sx() + [b";", b"}"]
        elif k == 1:
            toks += [b"addflag"] + L() + [b";", b"if", b"exists"] + L() + [b"{", b"keep", b";", b"}"]
        elif k == 2:
            toks += [b"vacation", b":addresses"] + L() + [b":subject"] + Sx() + Sx() + [b";"]
        elif k == 3:
            toks += [b"if", b"anyof", b"(", b"body", b":text", b":contains"] + L() + [b",", b"envelope", b":is"] + L(1, 4) + L() + [b")", b"{", b"stop", b";", b"}"]
        elif k == 4:
            toks += [b"if", b"true", b"{", b"if", b"true", b"{", b"if", b"address", b":matches"] + L() + L() + [b"{", b"fileinto", b":flags"] + L() + Sx() + [b";", b"}", b"}", b"}"]
        else:
            toks += [b"redirect", S.quote(" ".join(data.draw(st.lists(st.sampled_from(WORDS), min_size=10, max_size=300)))), b";"]
        text = S.canonical(toks)
        _one(text, "long", col)
        col.classes["long:>80-columns" if max(len(x) for x in text.split(b"\n")) > 80 else "long:short"] += 1

    body()
    return col


def replay(case):
    status, bucket, detail, _ = roundtrip(case["text"])
    return [(bucket, detail)] if status == "fail" else []


def shrink(case, bucket, budget):
    toks = [t.text + (b"\n" if t.kind == "mls" else b"") for t in lex(case["text"]).tokens]

    def still(ts):
        return any(b == bucket for b, _ in replay({"text": b" ".join(ts)}))

    if not still(toks):
        return None
    return {"text": b" ".join(core.ddmin(toks, still, budget))}


def main(tier, seed, t0):
    quick = tier == "quick"
    col = pspace.run(MOD, tier, seed, overrides=dict(blind=2 if quick else 3))
    col.merge(core.run_shards(values_worker, [(seed * 1000 + 300 + k, 250 if quick else 4000, 3 if quick else 6) for k in range(16)]))
    col.merge(core.run_shards(long_worker, [(seed * 1000 + 350 + k, 60 if quick else 1000) for k in range(16)]))
    need = ["accepted", "has:list", "has:multiline", "has:tag", "has:hostile-string", "src:values", "src:guided", "src:long", "long:>80-columns"]
    missing = [c for c in need if not col.classes.get(c)]
    if missing:
        raise core.HarnessError("generator classes empty: %s" % missing)
    col.exhaustive = False
    return core.finish(PROP, tier, seed, "exploration", col, RULE, t0, sys.modules[MOD],
                       assumptions=["tree equality uses the harness's own walker over Parser.result (vf/impl.py), multi-line values compared modulo a trailing CR",
                                    "nesting depth bounded (Python recursion in tosieve is not part of the claim)"],
                       extra={"bounds": pspace.BOUNDS[tier]})
