"""C10 - No script command before authentication; no credentials before TLS."""

import contextlib
import inspect
import socket
import ssl
import sys
from unittest import mock

from hypothesis import given, seed as hseed, strategies as st

from .. import core, impl, pspace
from ..msref import wire
from ..msref.server import RefServer
from ..msref.transport import FakeSocket, FakeContext
from sievelib import managesieve as sl_ms

PROP = "C10"
MOD = __name__

RULE = ("Hypothesis call histories over the public client API (script operations before connect, after a connect that failed at "
        "greeting / STARTTLS / TLS handshake / post-TLS greeting / AUTHENTICATE, after success, after a second connect, after logout) "
        "x server behaviour at each handshake step {OK, NO, BYE, silence, malformed} x capability sets with/without STARTTLS and "
        "differing pre-/post-TLS SASL lists, a cleartext capability listing appended to the STARTTLS reply (plaintext injection) x starttls flag, plus every public callable found by introspecting Client called with "
        "synthesised arguments on an unauthenticated connection; oracle on the ordered write log (plain vs TLS channel) and the "
        "reference server's view: no script-management verb unless AUTHENTICATE ended with OK on that connection (calls raise Error "
        "and write nothing), with starttls no AUTHENTICATE byte on the plain channel or before wrap_socket returned, failed/refused/"
        "unavailable STARTTLS makes connect fail, mechanism taken from the post-TLS list. Non-trivial = a failure before the first "
        "script operation or a TLS request; distinct by scenario.")

SCRIPT_OPS = {
    "havespace": ("s", 10), "listscripts": (), "getscript": ("s",), "putscript": ("s", "keep;"), "checkscript": ("keep;",),
    "deletescript": ("s",), "renamescript": ("s", "t"), "setactive": ("s",),
}
KINDS = [None, "NO", "BYE", "SILENCE", "MALFORMED", "BYE:REFERRAL"]
SASL_LISTS = [["PLAIN"], ["LOGIN", "PLAIN"], ["OAUTHBEARER"], ["DIGEST-MD5", "LOGIN"], ["SCRAM-SHA-1"], [], None,
              ["DIGEST-MD5", "PLAIN", "LOGIN"], ["LOGIN", "OAUTHBEARER", "DIGEST-MD5", "PLAIN"], ["DIGEST-MD5", "CRAM-MD5"]]
IMPL_ORDER = ["DIGEST-MD5", "PLAIN", "LOGIN", "OAUTHBEARER"]


def expected_mech(sasl, authmech):
    """The selection rule of C16, applied to the list that counts (after TLS: the post-TLS one)."""
    if sasl is None:
        return None
    if authmech in IMPL_ORDER:
        return authmech if authmech in sasl else None
    for m in IMPL_ORDER:
        if m in sasl:
            return m
    return None


@st.composite
def connection(draw):
    """One connect() call with the server it will meet."""
    starttls_cap = draw(st.booleans())
    cfg = {
        "starttls": starttls_cap,
        "sasl": draw(st.sampled_from(SASL_LISTS)),
        "sasl_tls": draw(st.sampled_from(SASL_LISTS)) if starttls_cap else None,
        "version": draw(st.booleans()),
        "auth_ok": draw(st.sampled_from([True, True, False])),
        "password": "pw",
    }
    if starttls_cap and draw(st.integers(0, 3)) == 0:
        # cleartext capability listing appended to the STARTTLS reply (plaintext injection)
        cfg["inject_after_starttls"] = draw(st.sampled_from([["LOGIN"], ["PLAIN"], ["PLAIN", "LOGIN"], ["DIGEST-MD5"], []]))
    faults = []
    for verb in (b"GREETING", b"STARTTLS", b"TLSGREETING", b"AUTHENTICATE", b"AUTHVERDICT"):
        k = draw(st.sampled_from(KINDS + [None, None, None] + (["LOOKALIKE"] if verb in (b"STARTTLS", b"AUTHENTICATE") else [])))
        if k:
            faults.append((verb.decode(), 0, k))
    if draw(st.integers(0, 3)) == 0:
        faults.append((draw(st.sampled_from(["LISTSCRIPTS", "GETSCRIPT", "HAVESPACE", "SETACTIVE", "DELETESCRIPT", "PUTSCRIPT"])), 0,
                       draw(st.sampled_from(["BYE", "BYE", "NO", "SILENCE"]))))
    cfg["faults"] = faults
    return {"cfg": cfg, "starttls": draw(st.booleans()), "handshake_ok": draw(st.sampled_from([True, True, False])),
            "authmech": draw(st.sampled_from([None, None, "PLAIN", "LOGIN", "DIGEST-MD5"]))}


@st.composite
def scenario(draw):
    steps = []
    ops = sorted(SCRIPT_OPS)
    for _ in range(draw(st.integers(0, 2))):
        steps.append({"call": draw(st.sampled_from(ops))})
    nconn = draw(st.integers(1, 2))
    for _ in range(nconn):
        steps.append({"connect": draw(connection())})
        for _ in range(draw(st.integers(1, 3))):
            steps.append({"call": draw(st.sampled_from(ops + ["capability"]))})
    if draw(st.booleans()):
        steps.append({"call": "logout"})
        steps.append({"call": draw(st.sampled_from(ops))})
    return steps


class Conn:
    def __init__(self, spec):
        cfg = dict(spec["cfg"])
        cfg["faults"] = [(v.encode() if isinstance(v, str) else v, o, k) for v, o, k in cfg["faults"]]
        self.srv = RefServer(cfg)
        self.sock = FakeSocket(self.srv)
        self.ctx = FakeContext(spec["handshake_ok"])
        self.spec = spec
        self.wrap_returned = False


def run(steps, introspect=False):
    """-> (fails, info)"""
    client = sl_ms.Client("server.example.org")
    conns = []
    cur = [None]
    fails = []
    info = {"nontrivial": False, "classes": set()}

    pending = []
    FALLBACK = {"cfg": {"starttls": False, "sasl": ["PLAIN", "LOGIN"], "sasl_tls": None, "version": True, "auth_ok": False,
                        "password": "pw", "faults": []}, "starttls": False, "handshake_ok": True, "authmech": None}

    def create_connection(addr, *a, **k):
        # every connection the client opens - also one it opens on its own
        # initiative - meets a server of its own; an unexpected one does not
        # accept the credentials
        spec = pending.pop(0) if pending else FALLBACK
        c = Conn(spec)
        if spec is FALLBACK:
            info["classes"].add("unexpected-reconnect")
        conns.append(c)
        cur[0] = c
        c.srv.on_connect(c.sock)
        return c.sock

    def server_side_violations():
        for c in conns:
            for why, raw in c.srv.violations:
                if why.endswith("before authentication"):
                    return why, raw
        return None

    def create_ctx(*a, **k):
        c = cur[0]

        class Ctx(FakeContext):
            def wrap_socket(self2, sock, server_hostname=None, **kw):
                r = FakeContext.wrap_socket(self2, sock, server_hostname=server_hostname, **kw)
                c.wrap_returned = True
                return r

        ctx = Ctx(c.spec["handshake_ok"])
        return ctx

    def call(name, *args, **kwargs):
        try:
            return ("ret", getattr(client, name)(*args, **kwargs))
        except sl_ms.Error as e:
            return ("exc", "Error", str(e))
        except Exception as e:  # noqa: BLE001
            return ("exc", impl.exc_bucket(e), repr(e)[:200])

    def script_verbs_in(data):
        found = []
        for line in data.split(b"\r\n"):
            word = line.split(b" ", 1)[0].upper()
            if word in wire.SCRIPT_VERBS:
                found.append(word.decode())
        return found

    with mock.patch.object(socket, "create_connection", create_connection), mock.patch.object(ssl, "create_default_context", create_ctx):
        failed_before_script = False
        logged_out = False
        for i, stp in enumerate(steps):
            if "connect" in stp:
                spec = stp["connect"]
                pending.append(spec)
                logged_out = False
                nconn0 = len(conns)
                res = call("connect", "user", "pw", "", starttls=spec["starttls"], authmech=spec["authmech"])
                if spec["starttls"]:
                    # every connection this connect() call opened - also one it opened on its own
                    # initiative (a referral, a retry) - is bound by the caller's request for TLS
                    for oc in conns[nconn0:]:
                        aw = [(ch, d) for ch, d in oc.sock.writes if b"AUTHENTICATE" in d.upper()]
                        if any(ch == "plain" for ch, _ in aw) and oc.spec is not spec:
                            fails.append(("AUTHENTICATE-on-plain-channel-despite-starttls|on-a-connection-opened-by-connect-itself",
                                          {"steps": steps[: i + 1], "result": res, "writes": [(ch, d) for ch, d in oc.sock.writes]}))
                c = conns[nconn0] if len(conns) > nconn0 else cur[0]
                if c is None or c.spec is not spec:
                    continue
                det = {"steps": steps[: i + 1], "result": res, "writes": [(ch, d) for ch, d in c.sock.writes],
                       "server_violations": c.srv.violations, "auth_attempts": c.srv.auth_attempts}
                auth_writes = [(ch, d) for ch, d in c.sock.writes if b"AUTHENTICATE" in d.upper()]
                if spec["starttls"]:
                    info["nontrivial"] = True
                    info["classes"].add("tls-requested")
                    if any(ch == "plain" for ch, _ in auth_writes):
                        fails.append(("AUTHENTICATE-on-plain-channel-despite-starttls", det))
                    if auth_writes and not c.wrap_returned:
                        fails.append(("AUTHENTICATE-before-TLS-handshake-completed", det))
                    tls_possible = (spec["cfg"]["starttls"] and spec["handshake_ok"]
                                    and not any(v in ("GREETING", "STARTTLS") for v, _, _ in spec["cfg"]["faults"]))
                    if len(conns) > nconn0 + 1:
                        tls_possible = True  # judged per connection above
                    if not tls_possible:
                        info["classes"].add("tls-fails")
                        if res == ("ret", True) or client.authenticated and c.srv.authenticated:
                            fails.append(("connect-succeeds-although-TLS-was-not-established", det))
                    for why, _ in c.srv.violations:
                        if why.startswith("mechanism"):
                            fails.append(("mechanism-not-from-post-TLS-capabilities" + ("|cleartext-appended-to-STARTTLS-reply" if spec["cfg"].get("inject_after_starttls") is not None else ""), det))
                    if spec["cfg"].get("inject_after_starttls") is not None:
                        info["classes"].add("starttls-injection")
                    tls_attempts = [m for ch, m in c.srv.auth_attempts if ch == "tls"]
                    if tls_attempts:
                        post = spec["cfg"]["sasl_tls"] if spec["cfg"]["sasl_tls"] is not None else spec["cfg"]["sasl"]
                        want = expected_mech(post, spec["authmech"])
                        if want is not None and tls_attempts[0].upper() != want:
                            info["classes"].add("pre-post-lists-differ")
                            fails.append(("mechanism-not-the-one-the-post-TLS-capabilities-call-for|wanted=%s|tried=%s" % (want, tls_attempts[0]),
                                          dict(det, post_tls_sasl=post, pre_tls_sasl=spec["cfg"]["sasl"], authmech=spec["authmech"])))
                if res != ("ret", True):
                    failed_before_script = True
                    info["classes"].add("connect-fails")
                else:
                    info["classes"].add("connect-ok")
                if res == ("ret", True) and not c.srv.authenticated:
                    fails.append(("connect-True-but-server-did-not-accept-authentication", det))
                continue
            name = stp["call"]
            c = cur[0]
            n0 = len(c.sock.writes) if c else 0
            if c is None:
                info["classes"].add("before-connect")
            res = call(name, *SCRIPT_OPS.get(name, ()))
            written = b"".join(d for _, d in c.sock.writes[n0:]) if c else b""
            v = server_side_violations()
            if v is not None and not logged_out:
                fails.append(("script-command-received-by-a-server-that-never-accepted-authentication|%s" % v[0].split(" ")[0],
                              {"steps": steps[: i + 1], "call": name, "result": res, "server_violation": v[0], "raw": v[1]}))
                break
            if name == "logout":
                logged_out = True
                continue
            if name in SCRIPT_OPS:
                authed = c is not None and c.srv.authenticated
                if not authed:
                    if failed_before_script or c is None:
                        info["nontrivial"] = True
                    verbs = script_verbs_in(written)
                    det = {"steps": steps[: i + 1], "call": name, "result": res, "written": written}
                    if verbs:
                        fails.append(("script-command-written-before-authentication|%s" % verbs[0], det))
                    elif written:
                        fails.append(("bytes-written-by-unauthenticated-script-call|%s" % name, det))
                    if not (res[0] == "exc" and res[1] == "Error"):
                        if not (res[0] == "exc" and c is None):
                            fails.append(("unauthenticated-script-call-does-not-raise-Error|%s|%s" % (name, res[1] if res[0] == "exc" else "returns"), det))
        # introspection: every public callable on an unauthenticated connection
        if introspect:
            spec = {"cfg": {"starttls": False, "sasl": ["PLAIN"], "sasl_tls": None, "version": True, "auth_ok": False, "password": "pw", "faults": []},
                    "starttls": False, "handshake_ok": True, "authmech": None}
            pending.append(spec)
            client2 = sl_ms.Client("server.example.org")
            try:
                client2.connect("user", "pw")
            except sl_ms.Error:
                pass
            c = cur[0]
            for mname in sorted(dir(sl_ms.Client)):
                if mname.startswith("_") or mname in ("connect",):
                    continue
                meth = getattr(client2, mname, None)
                if not callable(meth):
                    continue
                try:
                    sig = inspect.signature(meth)
                    params = list(sig.parameters.values())
                except (TypeError, ValueError):
                    params = []
                required = [p for p in params if p.kind in (p.POSITIONAL_ONLY, p.POSITIONAL_OR_KEYWORD) and p.default is p.empty]
                varargs = any(p.kind == p.VAR_POSITIONAL for p in params)
                plain = [7 if (p.annotation is int or "size" in p.name) else "x" for p in required]
                tuples = [tuple(plain)]
                # a method that takes free-form arguments may take a command name: offer every
                # script-management verb in several spellings, as str and bytes, in every string slot
                spellings = []
                for vb in sorted(wire.SCRIPT_VERBS):
                    v = vb.decode()
                    spellings += [v, v.lower(), v.capitalize(), vb, vb.lower(), v + " ", " " + v.lower()]
                slots = [k for k, a in enumerate(plain) if a == "x"]
                for k in slots[:2]:
                    for sp in spellings:
                        t = list(plain)
                        t[k] = sp
                        tuples.append(tuple(t))
                        if varargs:
                            tuples.append(tuple(t) + ("x",))
                            tuples.append(tuple(t) + (b"x", 7))
                if varargs and not slots:
                    for sp in spellings:
                        tuples.append(tuple(plain) + (sp,))
                        tuples.append(tuple(plain) + (sp, "x"))
                info["classes"].add("introspected:" + mname)
                for args in tuples:
                    n0 = len(c.sock.writes)
                    try:
                        with impl.cpu_guard():
                            meth(*args)
                    except BaseException as e:  # noqa: BLE001
                        if isinstance(e, (KeyboardInterrupt, SystemExit)):
                            raise
                    written = b"".join(d for _, d in c.sock.writes[n0:])
                    verbs = script_verbs_in(written)
                    if verbs:
                        fails.append(("script-command-written-before-authentication|%s|method=%s" % (verbs[0], mname),
                                      {"method": mname, "args": [repr(a) for a in args], "written": written}))
                        break
                    if c.sock.closed or client2.sock is not c.sock:
                        break
            client2.sock = None
    for c in conns:
        pass
    client.sock = None
    return fails, info


def worker(arg):
    sd, n = arg
    col = core.Collector()

    @pspace.hyp_settings(n)
    @hseed(sd)
    @given(scenario())
    def body(steps):
        fails, info = run(steps)
        sample = {"steps": steps} if info["nontrivial"] and col.evals % 43 == 0 else None
        col.case(key=repr(steps), nontrivial=info["nontrivial"], classes=sorted(info["classes"]), sample=sample)
        seen = set()
        for b, d in fails:
            if b not in seen:
                seen.add(b)
                col.fail(b, {"steps": d.get("steps", steps)}, d, size=len(repr(d.get("steps", steps))))

    body()
    fails, info = run([], introspect=True)
    col.case(key="introspection", nontrivial=True, classes=sorted(info["classes"]) + ["introspection"])
    for b, d in fails:
        col.fail(b, {"steps": [], "introspect": True}, d)
    return col


def replay(case):
    fails, _ = run(case["steps"], introspect=case.get("introspect", False))
    return fails


def shrink(case, bucket, budget):
    if case.get("introspect"):
        return None

    def still(steps):
        return any(b == bucket for b, _ in run(steps)[0])

    return {"steps": core.ddmin(case["steps"], still, budget)}


def main(tier, seed, t0):
    quick = tier == "quick"
    col = core.run_shards(worker, [(seed * 1000 + 1000 + k, 500 if quick else 6000) for k in range(16)])
    need = ["tls-requested", "tls-fails", "connect-fails", "connect-ok", "before-connect", "introspection", "starttls-injection"] + \
           ["introspected:" + m for m in SCRIPT_OPS]
    missing = [c for c in need if not col.classes.get(c)]
    if missing:
        raise core.HarnessError("generator classes empty: %s" % missing)
    col.exhaustive = False
    return core.finish(PROP, tier, seed, "exploration", col, RULE, t0, sys.modules[MOD],
                       assumptions=["'authenticated on this connection' is the reference server's view (AUTHENTICATE answered OK on that transport)",
                                    "TLS is simulated: ssl.create_default_context is patched; wrap_socket either raises ssl.SSLError or switches the fake transport to the TLS channel",
                                    "the static clause ('every method that can reach the command-sending routine') is approximated by introspection-driven dynamic calls with synthesised arguments",
                                    "calls after logout are outside the claim"])
