"""C02 - Parsing always terminates with a verdict: no exception, no hang."""

import base64
import gc
import json
import os
import re
import sys
import time

from hypothesis import given, seed as hseed, strategies as st

from .. import core, impl, pspace
from ..gen import tokens as T
from ..gen import scripts as S

PROP = "C02"
MOD = __name__

RULE = ("C01's exhaustive token spaces and generated scripts/mutants, plus Hypothesis byte-level mutants of corpus and "
        "generated scripts (bit flips, inserts of NUL/invalid UTF-8/multi-byte/quote/backslash/CR/LF, deletes, splices, "
        "truncations), identifiers colliding with every name in dir(sievelib.commands), str and bytes inputs, fresh and long-lived Parser objects, "
        "parse_file on files with byte order marks / other encodings / cut code units / padding, "
        "and size families for work scaling (Python line events at 3 sizes; CPU time at 0.1 MB vs 0.8 MB); oracle: no exception, lexer steps <= 2*len+16, result is True/False, "
        "error/error_pos/result shape; generated scripts and mutants whose string contents are format-directive look-alikes. Non-trivial = input is not an accepted script (mutated, rejected or crashing); "
        "distinct by bytes.")

ERR_RE = re.compile(r"line (\d+): .", re.S)


def check_shape(data, o):
    """List of (bucket, detail) for outcome o of input data (bytes)."""
    out = []
    if o.exc == "StepLimit":
        out.append(("hang|lexer-steps>2*len+16", {"steps": o.steps}))
        return out
    if o.exc == "CpuLimit":
        out.append(("hang|more-than-3s-cpu-for-one-parse", {"steps": o.steps}))
        return out
    if o.exc == "CpuSlow":
        out.append(("hang|more-than-0.2s-cpu-for-one-parse", {"cpu": o.exc_msg}))
        return out
    if o.exc == "Skipped":
        return out
    if o.exc is not None:
        out.append(("exception|" + o.exc, {"exc": o.exc_msg}))
        return out
    if o.verdict is not True and o.verdict is not False:
        out.append(("shape|verdict-not-bool", {"verdict": repr(o.verdict)}))
        return out
    if o.verdict is False:
        nl = data.count(b"\n")
        if not isinstance(o.error, str):
            out.append(("shape|error-not-str", {"error": repr(o.error)}))
        else:
            m = ERR_RE.match(o.error)
            if not m:
                out.append(("shape|error-format", {"error": o.error}))
            else:
                n = int(m.group(1))
                if not (1 <= n <= 1 + nl):
                    out.append(("shape|error-line-out-of-range", {"error": o.error, "newlines": nl}))
                ep = o.error_pos
                if not (isinstance(ep, tuple) and len(ep) == 3 and all(type(x) is int for x in ep)):
                    out.append(("shape|error_pos-not-int-triple", {"error_pos": repr(ep)}))
                elif ep[0] != n:
                    out.append(("shape|error_pos-line-differs-from-message", {"error_pos": list(ep), "error": o.error}))
    else:
        res = o.result
        if not isinstance(res, list) or not all(isinstance(c, impl.sl_commands.Command) for c in res):
            out.append(("shape|result-not-command-list", {"result": repr(res)[:200]}))
    return out


def judge(text, meta, col):
    src = meta["src"]
    if src == "layout":
        for v in meta["variants"]:
            _one(v, "layout", col)
        return
    _one(text, src, col)


def _one(data, src, col, as_str=False, parser=None, prev=None):
    """parser/prev: a long-lived Parser and the (data, as_str) it parsed last."""
    arg = data
    if as_str:
        try:
            arg = data.decode("utf-8")
        except UnicodeDecodeError:
            as_str = False
    o = impl.parse_outcome(arg, parser=parser)
    nt = o.verdict is not True or src in ("bytes", "mutant", "collision", "badcomment", "retext")
    sample = None
    if nt and col.evals % 1499 == 0:
        sample = {"input": data, "src": src, "verdict": o.verdict, "exc": o.exc, "steps": o.steps}
    col.case(key=None if src in ("blind", "guided") else data, nontrivial=nt,
             classes=("src:" + src, "verdict:%s" % (o.verdict if o.exc is None else "exception"),
                      "input:str" if as_str else "input:bytes"), sample=sample)
    for b, d in check_shape(data, o):
        d = dict(d)
        d["input"] = data
        case = {"data": data, "as_str": as_str}
        if parser is not None and prev is not None:
            case["prev"], case["prev_as_str"] = prev
            b += "|reused-parser"
        col.fail(b, case, d)
    return o


# ---------------------------------------------------------------------------
# byte-level mutation

INTERESTING = [b"\x00", b"\xff", b"\xc3", b"\x80", b"\xc3\xa9", b"\xe2\x82\xac", b"\xf0\x9f\x98\x80", b'"', b"\\", b"$",
               b"\r", b"\n", b"\r\n", b"{", b"}", b"[", b"]", b"(", b")", b";", b",", b"#", b"/*", b"*/", b"text:", b"\n.\n",
               b":", b" ", b"\t", b"\x0b", b"\x0c", b"a", b"0", b"K", b"\xed\xa0\x80", b"\xc0\xaf", b"\xfe"]


@st.composite
def byte_mutant(draw, base):
    data = bytearray(base)
    n_edits = draw(st.integers(1, 3))
    for _ in range(n_edits):
        k = draw(st.sampled_from(["flip", "insert", "insert", "delete", "splice", "truncate", "dupslice"]))
        n = len(data)
        if k == "flip" and n:
            i = draw(st.integers(0, n - 1))
            data[i] ^= 1 << draw(st.integers(0, 7))
        elif k == "insert":
            i = draw(st.integers(0, n))
            data[i:i] = draw(st.sampled_from(INTERESTING))
        elif k == "delete" and n:
            i = draw(st.integers(0, n - 1))
            j = min(n, i + draw(st.integers(1, 4)))
            del data[i:j]
        elif k == "splice" and n:
            i = draw(st.integers(0, n - 1))
            j = draw(st.integers(0, n - 1))
            ln = draw(st.integers(1, 8))
            data[j:j] = data[i : i + ln]
        elif k == "truncate" and n:
            i = draw(st.integers(0, n - 1))
            del data[i:]
        elif k == "dupslice" and n:
            i = draw(st.integers(0, n - 1))
            ln = draw(st.integers(1, 6))
            data[i:i] = data[i : i + ln]
    return bytes(data)


BAD_COMMENTS = [b" # \xff\xfe bad\n", b" /* \xc3 */ ", b" # r\xe9sum\xe9", b"/* \xf0\x9f */", b" # \xed\xa0\x80\r\n", b" /*\x80*/"]


def badcomment_worker(arg):
    """Scripts (valid and mutated) whose comments are not valid UTF-8."""
    sd, n, depth = arg
    col = core.Collector()

    @pspace.hyp_settings(n)
    @hseed(sd)
    @given(st.data())
    def body(data):
        toks = data.draw(S.valid_script(maxdepth=depth, maxcmds=3))
        variants = [toks]
        for _ in range(3):
            k, mt = data.draw(S.mutate(toks))
            if k != "noop":
                variants.append(mt)
        for tk in variants:
            text = data.draw(S.layout(tk, seps=[b" ", b"\n", b" "] + BAD_COMMENTS))
            if data.draw(st.booleans()):
                text += data.draw(st.sampled_from(BAD_COMMENTS)).rstrip(b"\n")
            _one(text, "badcomment", col)

    body()
    return col


FMT_TEXTS = [b"%", b"%s", b"100%", b"%d", b"%(a)s", b"%%", b"{}", b"{0}", b"{x}", b"%r", b"{0!r}", b"%c", b"${x}", b"%5", b"%(", b"\\\\%s",
             b"%s%s%s", b"{", b"}", b"{{", b"%n", b"\xe2\x82\xac%"]


def retext_worker(arg):
    """Scripts (valid and mutated) whose string contents look like format directives:
    any of them may become the offending token quoted in an error message."""
    sd, n, depth = arg
    col = core.Collector()

    @pspace.hyp_settings(n)
    @hseed(sd)
    @given(st.data())
    def body(data):
        toks = data.draw(S.valid_script(maxdepth=depth, maxcmds=3))
        variants = [toks]
        for _ in range(4):
            k, mt = data.draw(S.mutate(toks))
            if k != "noop":
                variants.append(mt)
        for tk in variants:
            new = []
            changed = False
            for t in tk:
                if t.startswith(b'"') and data.draw(st.integers(0, 2)) > 0:
                    t = b'"' + data.draw(st.sampled_from(FMT_TEXTS)) + b'"'
                    changed = True
                elif t.startswith(b"text:") and data.draw(st.booleans()):
                    t = b"text:\n" + data.draw(st.sampled_from(FMT_TEXTS)) + b"\n.\n"
                    changed = True
                new.append(t)
            if not changed:
                # a surplus string is the simplest offending token
                new.insert(data.draw(st.integers(0, len(new))), b'"' + data.draw(st.sampled_from(FMT_TEXTS)) + b'"')
            text = data.draw(S.layout(new))
            _one(text, "retext", col, as_str=data.draw(st.booleans()))

    body()
    return col


def corpus_scripts():
    pins = json.load(open(os.path.join(core.ROOT, "corpus", "pinned.json")))
    return [base64.b64decode(p["b64"]) for p in pins]


def bytes_worker(arg):
    sd, n, depth = arg
    col = core.Collector()
    corpus = corpus_scripts()
    reused = impl.Parser()
    last = [None]

    @pspace.hyp_settings(n)
    @hseed(sd)
    @given(st.data())
    def body(data):
        if data.draw(st.booleans()):
            base = data.draw(st.sampled_from(corpus))
        else:
            toks = data.draw(S.valid_script(maxdepth=depth))
            base = data.draw(S.layout(toks))
        for _ in range(4):
            m = data.draw(byte_mutant(base))
            as_str = data.draw(st.booleans())
            if data.draw(st.booleans()):
                # the same Parser object as for the worker's earlier inputs (README usage)
                _one(m, "bytes", col, as_str=as_str, parser=reused, prev=last[0])
                last[0] = (m, as_str)
                col.classes["parser:reused"] += 1
            else:
                _one(m, "bytes", col, as_str=as_str)

    body()
    return col


# ---------------------------------------------------------------------------
# identifiers colliding with internal class names


def collision_worker(_):
    col = core.Collector()
    names = set()
    for mod in (impl.sl_commands, impl.sl_parser):
        for name in dir(mod):
            if not re.fullmatch(r"[A-Za-z_]\w*", name):
                continue
            names.add(name)
            if name.endswith("Command"):
                names.add(name[: -len("Command")])
    names.discard("")
    shapes = [b"%s;", b"%s", b'%s "a";', b"%s :is;", b'%s ["a"];', b"%s {}", b"%s true {}", b"if %s {}", b'if %s "a" {}',
              b"if not %s {}", b"if anyof (%s) {}", b"if anyof (true, %s) {}", b"if true { %s; }", b"%s 1;",
              b'require "fileinto"; %s;']
    for name in sorted(names):
        for variant in {name, name.lower(), name.upper(), name.capitalize()}:
            nb = variant.encode()
            for sh in shapes:
                _one(sh % nb, "collision", col)
    return col


# ---------------------------------------------------------------------------
# parse_file


BOMS = [b"\xef\xbb\xbf", b"\xff\xfe", b"\xfe\xff", b"\xff\xfe\x00\x00", b"\x00\x00\xfe\xff", b"+/v8", b"\xf7\x64\x4c"]


@st.composite
def file_form(draw, m):
    """What a file on disk may look like besides plain UTF-8: byte order marks
    (followed by the script as it is, or really transcoded, whole or cut in the
    middle of a code unit), other encodings, trailing NUL padding, ^Z."""
    k = draw(st.integers(0, 9))
    if k <= 3:
        return m
    if k == 4:
        return draw(st.sampled_from(BOMS)) + m
    if k in (5, 6):
        enc = draw(st.sampled_from(["utf-16", "utf-16-le", "utf-16-be", "utf-32", "latin-1", "cp1252"]))
        try:
            t = m.decode("utf-8").encode(enc)
        except (UnicodeDecodeError, UnicodeEncodeError):
            t = draw(st.sampled_from(BOMS)) + m
        if k == 6 and t:
            t = t[: draw(st.integers(0, len(t) - 1))]
        return t
    if k == 7:
        bom = draw(st.sampled_from(BOMS[1:3]))
        return bom + m + draw(st.sampled_from([b"", b"\x00", b"\xd8", b"\x00\xd8", b"\xd8\x00", b"\xdc\x00\x00"]))
    if k == 8:
        return m + draw(st.sampled_from([b"\x00" * 7, b"\x1a", b"\r", b"\xff"]))
    return draw(st.sampled_from(BOMS)) + m[: draw(st.integers(0, len(m)))]


def file_worker(arg):
    sd, n = arg
    col = core.Collector()
    corpus = corpus_scripts()
    work = os.path.join(core.ROOT, ".work")
    os.makedirs(work, exist_ok=True)
    path = os.path.join(work, "c02-%d-%d.sieve" % (os.getpid(), sd))

    @pspace.hyp_settings(n)
    @hseed(sd)
    @given(st.data())
    def body(data):
        base = data.draw(st.sampled_from(corpus))
        m = data.draw(st.one_of(st.just(base), byte_mutant(base)))
        m = data.draw(file_form(m))
        with open(path, "wb") as fp:
            fp.write(m)
        p = impl.Parser()
        o = impl.Outcome()
        o.exc = o.exc_msg = o.error = o.error_pos = o.result = None
        o.steps = -1
        try:
            o.verdict = p.parse_file(path)
        except Exception as e:  # noqa: BLE001
            o.verdict = None
            o.exc = impl.exc_bucket(e)
            o.exc_msg = repr(e)[:200]
        if o.verdict is False:
            o.error, o.error_pos = getattr(p, "error", None), getattr(p, "error_pos", None)
        if o.verdict is True:
            o.result = getattr(p, "result", None)
        col.case(key=m, nontrivial=o.verdict is not True, classes=("src:parse_file",))
        for b, d in check_shape(m, o):
            d = dict(d)
            d["input"] = m
            col.fail("parse_file|" + b, {"data": m, "file": True}, d)

    try:
        body()
    finally:
        if os.path.exists(path):
            os.unlink(path)
    return col


# ---------------------------------------------------------------------------
# work scaling (deterministic: Python line events via sys.monitoring)

FAMILIES = {
    "valid-commands": lambda n: b"keep;\n" * n,
    "nested-if": lambda n: b"if true {\n" * n + b"}\n" * n,
    "long-list": lambda n: b'require "fileinto"; fileinto "x"; if header ["a"' + b', "a"' * n + b'] "b" {}',
    "hash-comments": lambda n: b"# c\n" * n + b"keep;",
    "bracket-comment": lambda n: b"/*" + b" x\n" * n + b"*/ keep;",
    "unterminated-string": lambda n: b'keep; redirect "' + b"ab\n" * n,
    "unterminated-comment": lambda n: b"keep; /*" + b"ab\n" * n,
    "unterminated-text": lambda n: b'require "reject"; reject text:\n' + b"ab\n" * n,
    "many-tests": lambda n: b"if anyof (true" + b", true" * n + b") {}",
    "error-at-end": lambda n: b"keep;\n" * n + b"@",
    "multibyte-then-error": lambda n: b'redirect "' + "é".encode() * n + b'"; @',
    "junk": lambda n: b"@" * n,
    "not-chain": lambda n: b"if " + b"not " * n + b"true {}",
}


def count_lines(fn):
    mon = sys.monitoring
    tool = mon.PROFILER_ID
    cnt = [0]

    def on_line(code, line):
        cnt[0] += 1

    try:
        mon.use_tool_id(tool, "vf-c02")
    except ValueError:
        mon.free_tool_id(tool)
        mon.use_tool_id(tool, "vf-c02")
    mon.register_callback(tool, mon.events.LINE, on_line)
    mon.set_events(tool, mon.events.LINE)
    try:
        fn()
    finally:
        mon.set_events(tool, 0)
        mon.register_callback(tool, mon.events.LINE, None)
        mon.free_tool_id(tool)
    return cnt[0]


def scaling_worker(arg):
    name, n = arg
    col = core.Collector()
    fam = FAMILIES[name]
    ev = []
    wall = []
    old = sys.getrecursionlimit()
    try:
        for k in (n, 2 * n, 4 * n):
            data = fam(k)
            t = time.time()

            box = []

            def run():
                box.append(impl.parse_outcome(data, step_factor=1000))

            ev.append(count_lines(run))
            o = box[0]
            # deep nesting and long inputs are inputs like any other: same oracle (default recursion limit)
            for b, d in check_shape(data, o):
                col.fail("size-family|%s|%s" % (name, b), {"family": name, "n": n}, dict(d, size=len(data), k=k))
            wall.append(round(time.time() - t, 4))
    finally:
        sys.setrecursionlimit(old)
    col.case(key=name.encode(), nontrivial=True, classes=("src:scaling",),
             sample={"family": name, "n": n, "line_events": ev, "wall_s": wall})
    col.notes["scaling:%s events=%s wall=%s" % (name, ev, wall)] += 1
    if ev[2] > 5 * ev[0] + 2000 or ev[1] > 2.5 * ev[0] + 2000:
        col.fail("scaling|super-linear-work|" + name, {"family": name, "n": n}, {"line_events": ev, "wall_s": wall})
    return col


CPU_FAMILIES = ["valid-commands", "long-list", "hash-comments", "many-tests", "error-at-end", "unterminated-string", "multibyte-then-error"]


def cpu_scaling_worker(arg):
    """Work done inside C code (slicing, counting, regex) is invisible to the line-event
    count: for inputs of 0.1 ... 1 MB the CPU time of one parse is compared between a
    size and eight times that size.  Linear work gives a factor of about 8; a factor
    above 20 (plus half a second of slack), measured twice, is reported."""
    name, n = arg
    col = core.Collector()
    fam = FAMILIES[name]

    def cpu(data, k):
        best = None
        for _ in range(2):
            p = impl.Parser()
            core.guard_enter(b"@family:%s:%d" % (name.encode(), k))
            gc_was = gc.isenabled()
            gc.disable()
            t = time.process_time()
            try:
                with impl.cpu_guard(60.0):
                    p.parse(data)
            except Exception:  # noqa: BLE001 -- the verdict is judged elsewhere
                pass
            finally:
                dt = time.process_time() - t
                if gc_was:
                    gc.enable()
                core.guard_exit()
            best = dt if best is None else min(best, dt)
        return best

    small, big = fam(n), fam(8 * n)
    t1, t8 = cpu(small, n), cpu(big, 8 * n)
    slow = t8 > 20 * t1 + 0.5
    if slow:
        t1b, t8b = cpu(small, n), cpu(big, 8 * n)
        slow = t8b > 20 * t1b + 0.5
        t1, t8 = min(t1, t1b), min(t8, t8b)
    col.case(key=b"cpu-" + name.encode(), nontrivial=True, classes=("src:cpu-scaling",),
             sample={"family": name, "bytes": [len(small), len(big)], "cpu_s": [round(t1, 3), round(t8, 3)]})
    col.notes["cpu-scaling:%s bytes=%s cpu=%s" % (name, [len(small), len(big)], [round(t1, 2), round(t8, 2)])] += 1
    if slow:
        col.fail("scaling|super-linear-cpu-time|" + name, {"family": name, "n": n, "cpu": True},
                 {"bytes": [len(small), len(big)], "cpu_seconds": [round(t1, 3), round(t8, 3)], "factor": round(t8 / max(t1, 1e-6), 1)})
    return col


def atheris_campaign(seed, runs, seeded):
    """Run one libFuzzer campaign in a subprocess. -> Collector"""
    import shutil
    import subprocess
    import tempfile
    col = core.Collector()
    deps = os.path.join(core.ROOT, ".deps")
    if not os.path.isdir(os.path.join(deps, "atheris")):
        col.notes["atheris not installed (run ./setup.sh): campaign skipped"] += 1
        return col
    work = os.path.join(core.ROOT, ".work")
    os.makedirs(work, exist_ok=True)
    d = tempfile.mkdtemp(prefix="c02-fuzz-", dir=work)
    try:
        corpus = os.path.join(d, "corpus")
        os.makedirs(corpus)
        if seeded:
            for i, sc in enumerate(corpus_scripts()):
                if len(sc) <= 400:
                    with open(os.path.join(corpus, "seed%03d" % i), "wb") as fp:
                        fp.write(sc)
        dic = os.path.join(d, "dict")
        with open(dic, "w") as fp:
            for t in T.FULL:
                fp.write('"%s"\n' % "".join("\\x%02x" % c for c in t))
        findings = os.path.join(d, "findings.jsonl")
        env = dict(os.environ, PYTHONPATH=os.pathsep.join([core.ROOT, impl.REPO, deps]))
        cmd = [sys.executable, "-m", "vf.fuzz_c02", findings, corpus, "-runs=%d" % runs, "-seed=%d" % (seed + 1), "-max_len=256",
               "-dict=" + dic, "-print_final_stats=1", "-verbosity=0", "-artifact_prefix=" + d + os.sep, "-report_slow_units=3600"]
        try:
            r = subprocess.run(cmd, cwd=core.ROOT, env=env, capture_output=True, text=True, timeout=3600, preexec_fn=core.unlimited_cpu)
        except subprocess.TimeoutExpired:
            col.inconclusive.append("atheris campaign (seeded=%s) hit the 1 h ceiling" % seeded)
            return col
        execs = 0
        for line in (r.stderr + r.stdout).splitlines():
            if "stat::number_of_executed_units" in line:
                execs = int(line.split()[-1])
        if execs == 0:
            col.notes["atheris campaign produced no statistics (exit %d): %s" % (r.returncode, (r.stderr or "")[-200:].replace("\n", " "))] += 1
            return col
        ncorp = len(os.listdir(corpus))
        col.case(key=("atheris-%s" % seeded).encode(), nontrivial=True, classes=("src:atheris-seeded" if seeded else "src:atheris-empty",),
                 sample={"campaign": "atheris", "seeded_corpus": seeded, "executions": execs, "corpus_size_after": ncorp}, n=1)
        col.evals += execs - 1
        col.nt_counted += ncorp  # distinct coverage-increasing inputs kept by libFuzzer
        col.notes["atheris seeded=%s executions=%d corpus=%d" % (seeded, execs, ncorp)] += 1
        if os.path.exists(findings):
            for line in open(findings):
                f = json.loads(line)
                data = base64.b64decode(f["data"])
                col.fail(f["bucket"], {"data": data, "as_str": False}, {"input": data, "found_by": "atheris", "detail": f["detail"]})
    finally:
        shutil.rmtree(d, ignore_errors=True)
    return col


def extra_worker(arg):
    kind, payload = arg
    if kind == "bytes":
        return bytes_worker(payload)
    if kind == "collision":
        return collision_worker(payload)
    if kind == "file":
        return file_worker(payload)
    if kind == "scaling":
        return scaling_worker(payload)
    if kind == "cpu-scaling":
        return cpu_scaling_worker(payload)
    if kind == "badcomment":
        return badcomment_worker(payload)
    if kind == "retext":
        return retext_worker(payload)
    if kind == "atheris":
        return atheris_campaign(*payload)
    raise core.HarnessError(kind)


def replay(case):
    if "family" in case and case.get("cpu"):
        col = cpu_scaling_worker((case["family"], case["n"]))
        return [(b, f["detail"]) for b, f in col.fails.items()]
    if "family" in case:
        col = scaling_worker((case["family"], case["n"]))
        return [(b, f["detail"]) for b, f in col.fails.items()]
    data = case["data"]
    if case.get("isolate"):
        return isolated_parse(data)
    if case.get("file"):
        work = os.path.join(core.ROOT, ".work")
        os.makedirs(work, exist_ok=True)
        path = os.path.join(work, "c02-replay-%d.sieve" % os.getpid())
        with open(path, "wb") as fp:
            fp.write(data)
        p = impl.Parser()
        o = impl.Outcome()
        o.exc = o.exc_msg = o.error = o.error_pos = o.result = None
        o.steps = -1
        try:
            o.verdict = p.parse_file(path)
        except Exception as e:  # noqa: BLE001
            o.verdict = None
            o.exc = impl.exc_bucket(e)
            o.exc_msg = repr(e)[:200]
        finally:
            os.unlink(path)
        if o.verdict is False:
            o.error, o.error_pos = getattr(p, "error", None), getattr(p, "error_pos", None)
        if o.verdict is True:
            o.result = getattr(p, "result", None)
        return [("parse_file|" + b, d) for b, d in check_shape(data, o)]
    arg = data
    if case.get("as_str"):
        try:
            arg = data.decode("utf-8")
        except UnicodeDecodeError:
            pass
    if "prev" in case:
        # the finding was made with a Parser that had parsed case["prev"] just before
        p = impl.Parser()
        prev = case["prev"]
        if case.get("prev_as_str"):
            try:
                prev = prev.decode("utf-8")
            except UnicodeDecodeError:
                pass
        impl.parse_outcome(prev, parser=p)
        o = impl.parse_outcome(arg, parser=p)
        return [(b + "|reused-parser", d) for b, d in check_shape(data, o)]
    o = impl.parse_outcome(arg)
    return check_shape(data, o)


def shrink(case, bucket, budget):
    if "family" in case or case.get("file") or case.get("isolate"):
        return None
    data = case["data"]

    def still(bs):
        c = dict(case)
        c["data"] = bytes(bs)
        return any(b == bucket for b, _ in replay(c))

    if not still(list(data)):
        return None
    small = core.ddmin(list(data), still, budget)
    c = dict(case)
    c["data"] = bytes(small)
    return c


def _iso_killed(k):
    c = core.Collector()
    c.fail("killed", {}, {"signal": k.signum})
    return c


def _rebuild(current):
    """Inputs larger than the shared slot are announced by a marker @family:<name>:<n>."""
    if current.startswith(b"@family:"):
        _, name, n = current.decode().split(":")
        return FAMILIES[name](int(n))
    return current


def killed_alone(data):
    """Parse `data` alone in a forked child under the CPU kill limit. -> True if that child is killed, too
    (or stopped by the interpreter-level 3 s guard, or measured slow twice)."""
    def one(_):
        c = core.Collector()
        o = impl.parse_outcome(data)
        c.case(nontrivial=False)
        if o.exc in ("CpuLimit", "CpuSlow", "StepLimit"):
            # not killed, but stopped by the 3 s guard inside the interpreter: just as slow
            c.fail("slow", {}, {"exc": o.exc})
        return c
    res = core.run_shards(one, [0], on_killed=_iso_killed)
    return bool(res.fails)


def on_killed(k):
    """A worker died inside the code under test: with SIGXCPU this is a parse
    that burnt more than core.CPU_KILL_AFTER seconds of CPU inside C code.  The
    input is parsed again, alone, in fresh children: only a kill that repeats
    (twice) is a finding.  A kill that does not repeat - the process's CPU time also
    contains garbage collection and page-fault work of a worker that has run for
    minutes - costs the rest of that worker's cases, which is reported as
    inconclusive, not as a violation."""
    col = core.Collector()
    if k.signum == 24:  # SIGXCPU
        data = _rebuild(k.current)
        if killed_alone(data) and killed_alone(data):
            col.case(key=k.current, nontrivial=True, classes=("killed-by-cpu-limit",))
            col.fail("hang|killed-after-%ds-cpu-inside-one-parse" % core.CPU_KILL_AFTER, {"data": k.current, "as_str": False, "isolate": True},
                     {"input": k.current[:2000], "bytes": len(data), "signal": k.signum, "shard": repr(k.shard)[:200]})
        else:
            col.inconclusive.append("a worker was killed by the CPU limit while parsing an input that parses in time when tried alone, twice "
                                    "(not reproducible: no finding); the rest of its cases (%s) was not explored; input: %r"
                                    % (repr(k.shard)[:80], k.current[:120]))
    else:
        col.inconclusive.append("worker died with signal/exit %s on %r" % (k.signum, k.current[:200]))
    return col


def isolated_parse(data):
    """-> list of (bucket, detail): non-empty if parsing `data` alone is killed by the CPU limit (twice)."""
    data = _rebuild(data)
    if killed_alone(data) and killed_alone(data):
        return [("hang|killed-after-%ds-cpu-inside-one-parse" % core.CPU_KILL_AFTER, {"bytes": len(data)})]
    return []


def main(tier, seed, t0):
    quick = tier == "quick"
    overrides = dict(blind=3 if quick else 4 if os.environ.get("VERIF_DEEP") else 3, guided=5 if quick else 7,
                     gen=100 if quick else 1500)
    shards = [(MOD, s) for s in pspace.shards_for(tier, seed, overrides=overrides)]
    col = core.run_shards(pspace.worker, shards, on_killed=on_killed)
    nbytes = 400 if quick else 15000
    extra = [("bytes", (seed * 1000 + 100 + k, nbytes, 3 if quick else 5)) for k in range(16)]
    extra.append(("collision", None))
    extra += [("badcomment", (seed * 1000 + 300 + k, 150 if quick else 3000, 3)) for k in range(4)]
    extra += [("retext", (seed * 1000 + 350 + k, 150 if quick else 3000, 3)) for k in range(4)]
    extra += [("file", (seed * 1000 + 200 + k, 60 if quick else 600)) for k in range(2)]
    n0 = 400 if quick else 3000
    extra += [("scaling", (name, n0)) for name in sorted(FAMILIES)]
    extra += [("cpu-scaling", (name, 15000)) for name in CPU_FAMILIES]
    runs = 20000 if quick else 1500000
    extra += [("atheris", (seed, runs, True)), ("atheris", (seed, runs, False))]
    col.merge(core.run_shards(extra_worker, extra, on_killed=on_killed))
    need = ["src:blind", "src:guided", "src:gen", "src:mutant", "src:bytes", "src:collision", "src:parse_file",
            "src:scaling", "src:cpu-scaling", "src:badcomment", "src:retext", "input:str", "verdict:False", "verdict:True", "parser:reused"]
    missing = [c for c in need if not col.classes.get(c)]
    if missing:
        raise core.HarnessError("generator classes empty: %s" % missing)
    col.exhaustive = False
    return core.finish(PROP, tier, seed, "exploration", col, RULE, t0, sys.modules[MOD],
                       assumptions=["a hang is observed as more than 2*len+16 lexer tokens (counter wrapped around Parser.lexer.scan)",
                                    "work scaling is judged on Python line events (sys.monitoring), not on wall time; time spent inside "
                                    "the regex engine is invisible to it (wall times are reported only)",
                                    "absence of crashes over all byte strings cannot be shown by sampling"],
                       extra={"bounds": overrides})
