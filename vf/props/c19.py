"""C19 - What you put into a filter is what you read back."""

import sys

from hypothesis import given, seed as hseed, strategies as st

from .. import core, impl, pspace, fsmodel
from ..gen import filters as F

PROP = "C19"
MOD = __name__

RULE = ("Hypothesis filter definitions restricted to the forms C19 lists (header with string values, exists/notexists 1-4 names, "
        "size, envelope with lists, address, body with transform, currentdate with/without relational match, :not variants, 1-4 "
        "conditions, anyof/allof; actions with positional strings and value-less tags) with values over text incl. commas, spaces, "
        "brackets, non-ASCII; created by addfilter and by updatefilter (same name, renamed, on an enabled and on a disabled filter); oracle: get_filter_conditions / get_filter_actions / "
        "get_filter_matchtype return exactly what was supplied - on the original set, on a set reloaded from str(fs), after "
        "disablefilter, and after re-enabling a filter that was updated while disabled. Non-trivial = a value with comma/bracket/space/non-ASCII, or >= 2 conditions, or an address condition; "
        "distinct by definition.")

COND_KINDS = ["header", "header", "exists", "size", "envelope", "address", "body", "currentdate"]
ACT_KINDS = ["fileinto", "redirect", "reject", "keep", "discard", "stop", "flags"]


def norm(x):
    """tuples/lists to lists recursively for comparison (the suite compares
    lists of tuples; list-vs-tuple of the outer container is not the point)"""
    if isinstance(x, (list, tuple)):
        return [norm(y) for y in x]
    return x


def norm_top(conds):
    # each condition is a tuple whose elements are strings or lists
    return [tuple(c) for c in conds]


def observe(fs, name):
    try:
        return {"conditions": fs.get_filter_conditions(name), "actions": fs.get_filter_actions(name),
                "matchtype": fs.get_filter_matchtype(name)}
    except Exception as e:  # noqa: BLE001
        return {"exc": impl.exc_bucket(e), "msg": repr(e)[:200]}


def compare(defn, obs, where):
    out = []
    if "exc" in obs:
        return [("%s|read-back-raises|%s" % (where, obs["exc"]), {"definition": defn, "exc": obs["msg"]})]
    exp_c = [tuple(c) for c in defn["conditions"]]
    got_c = obs["conditions"]
    if got_c is None or [tuple(c) for c in got_c] != exp_c or any(type(a) is not type(b) for c, d in zip(got_c, exp_c) for a, b in zip(c, d)):
        kind = "?"
        for i, c in enumerate(exp_c):
            if got_c is None or i >= len(got_c) or tuple(got_c[i]) != c:
                h = c[0]
                kind = h if isinstance(h, str) and h.replace("not", "", 1) in F.SPECIAL else "header"
                break
        out.append(("%s|conditions-differ|%s" % (where, kind), {"definition": defn, "expected": exp_c, "got": got_c}))
    exp_a = [tuple(a) for a in defn["actions"]]
    got_a = obs["actions"]
    if got_a is None or [tuple(a) for a in got_a] != exp_a:
        kind = "?"
        for i, a in enumerate(exp_a):
            if got_a is None or i >= len(got_a) or tuple(got_a[i]) != a:
                kind = a[0]
                break
        out.append(("%s|actions-differ|%s" % (where, kind), {"definition": defn, "expected": exp_a, "got": got_a}))
    if obs["matchtype"] != defn["matchtype"]:
        out.append(("%s|matchtype-differs" % where, {"definition": defn, "got": obs["matchtype"]}))
    return out


MODES = ["add", "update", "update-rename", "disabled-update", "disabled-update-rename"]


def check(defn, mode):
    if mode is True:
        mode = "update"
    elif mode is False:
        mode = "add"
    fails = []
    name = "f"
    try:
        fs = fsmodel.new_set()
        if mode == "add":
            fs.addfilter("f", defn["conditions"], defn["actions"], defn["matchtype"])
        else:
            # the filter being updated differs from the new definition in everything, match type included
            fs.addfilter("f", [("Subject", ":is", "x"), ("exists", "y")], [("keep",)], "allof" if defn["matchtype"] == "anyof" else "anyof")
            if mode.startswith("disabled"):
                fs.disablefilter("f")
            if mode.endswith("rename"):
                name = "g"
            fs.updatefilter("f", name, defn["conditions"], defn["actions"], defn["matchtype"])
    except Exception as e:  # noqa: BLE001
        return [("factory-raises|" + impl.exc_bucket(e), {"definition": defn, "exc": repr(e)[:200]})]
    where0 = "disabled-by-history" if mode.startswith("disabled") else "original"
    fails += compare(defn, observe(fs, name), where0)
    # reloaded
    text = str(fs)
    p = impl.Parser()
    try:
        ok = p.parse(text)
    except Exception:  # noqa: BLE001
        ok = None
    if ok is True:
        fs2 = fsmodel.new_set()
        try:
            fs2.from_parser_result(p)
            fails += compare(defn, observe(fs2, name), "reloaded")
        except Exception as e:  # noqa: BLE001
            fails.append(("reloaded|load-raises|" + impl.exc_bucket(e), {"definition": defn, "exc": repr(e)[:200]}))
    else:
        fails.append(("reloaded|rendered-script-not-accepted", {"definition": defn, "text": text}))
    # disabled / re-enabled
    try:
        if mode.startswith("disabled"):
            fs.enablefilter(name)
            fails += compare(defn, observe(fs, name), "re-enabled")
        fs.disablefilter(name)
        fails += compare(defn, observe(fs, name), "disabled")
    except Exception as e:  # noqa: BLE001
        fails.append(("disabled|raises|" + impl.exc_bucket(e), {"definition": defn, "exc": repr(e)[:200]}))
    return fails


def nontrivial(defn):
    if len(defn["conditions"]) >= 2:
        return True
    if any(c[0] == "address" for c in defn["conditions"]):
        return True
    return any(any(ch in v for ch in ", []") or any(ord(ch) > 127 for ch in v) for v in F.user_values(defn))


def worker(arg):
    sd, n = arg
    col = core.Collector()

    @pspace.hyp_settings(n)
    @hseed(sd)
    @given(F.definition(F.MILD, COND_KINDS, ACT_KINDS, lists_ok=False, tags_with_values=False), st.sampled_from(MODES))
    def body(defn, via_update):
        fails = check(defn, via_update)
        nt = nontrivial(defn)
        classes = ["via:" + via_update]
        for c in defn["conditions"]:
            h = c[0]
            classes.append("cond:" + (h if h.replace("not", "", 1) in F.SPECIAL else "header"))
        for a in defn["actions"]:
            classes.append("act:" + a[0])
        sample = None
        if nt and col.evals % 61 == 0:
            sample = {"definition": defn, "via_update": via_update}
        col.case(key=repr(defn) + str(via_update), nontrivial=nt, classes=classes, sample=sample)
        seen = set()
        for b, d in fails:
            if b not in seen:
                seen.add(b)
                col.fail(b, {"definition": defn, "via_update": via_update}, d)

    body()
    return col


def fix_def(d):
    def fx(c):
        return tuple(c)
    return {"conditions": [fx(c) for c in d["conditions"]], "actions": [tuple(a) for a in d["actions"]], "matchtype": d["matchtype"]}


def replay(case):
    return check(fix_def(case["definition"]), case["via_update"])


def shrink(case, bucket, budget):
    d = fix_def(case["definition"])

    def still_c(conds):
        c = {"definition": {"conditions": conds, "actions": d["actions"], "matchtype": d["matchtype"]}, "via_update": case["via_update"]}
        return bool(conds) and any(b == bucket for b, _ in replay(c))

    conds = core.ddmin(d["conditions"], still_c, budget / 2) if len(d["conditions"]) > 1 else d["conditions"]

    def still_a(acts):
        c = {"definition": {"conditions": conds, "actions": acts, "matchtype": d["matchtype"]}, "via_update": case["via_update"]}
        return any(b == bucket for b, _ in replay(c))

    acts = d["actions"]
    if acts and still_a([]):
        acts = []
    elif len(acts) > 1:
        acts = core.ddmin(acts, still_a, budget / 2)
    return {"definition": {"conditions": conds, "actions": acts, "matchtype": d["matchtype"]}, "via_update": case["via_update"]}


def main(tier, seed, t0):
    quick = tier == "quick"
    col = core.run_shards(worker, [(seed * 1000 + 800 + k, 600 if quick else 8000) for k in range(16)])
    need = ["via:" + m for m in MODES] + [ "cond:header", "cond:exists", "cond:notexists", "cond:size", "cond:envelope", "cond:address",
            "cond:body", "cond:currentdate", "act:fileinto", "act:redirect", "act:stop", "act:keep"]
    missing = [c for c in need if not col.classes.get(c)]
    if missing:
        raise core.HarnessError("generator classes empty: %s" % missing)
    col.exhaustive = False
    return core.finish(PROP, tier, seed, "exploration", col, RULE, t0, sys.modules[MOD],
                       assumptions=["definitions restricted to the forms listed in C19; values do not contain quotes or backslashes "
                                    "(C19's alphabet: commas, spaces, brackets, non-ASCII)"])
