"""C13 - Parsing and filter building are independent of what happened before."""

import sys

import hypothesis
from hypothesis import strategies as st
from hypothesis.stateful import RuleBasedStateMachine, rule, run_state_machine_as_test

from .. import core, impl, fsmodel, pspace
from ..pristine import Pristine
from ..gen import scripts as S

PROP = "C13"
MOD = __name__

RULE = ("first-contact histories (for every command/test of the language, the process's first use of it is an irregular one - a tag at every "
        "position, cut off after the tag, without require - followed by its regular uses, FiltersSet operations and the irregular use "
        "again; each in a process forked from the pristine image; likewise every ordered pair and triple of uses of a family of registered "
        "custom commands whose classes derive from one another) + Hypothesis RuleBasedStateMachine (<= 25 steps): one long-lived Parser, fresh Parsers and two FiltersSets; scripts that are "
        "valid / invalid / truncated mid-construct / with differing requires (incl. regex, relational), FiltersSet operations incl. "
        "conditions with extension-bound match types; oracle: each parse observation (verdict, error, error_pos, tree, "
        "serialisation, exception) equals the observation for that script alone in a pristine forked interpreter image, and each "
        "FiltersSet's observations equal those of its own sub-history run alone in the pristine image; every result tree obtained earlier in the "
        "history still serialises to the same text after each later parse; ordered pairs/triples of scripts that leave a control structure open or end with one and scripts that start with else/elsif/closers, on one Parser. Non-trivial = a step preceded "
        "by a step that loaded an extension, failed or raised; distinct by history.")

FIXED_SCRIPTS = [
    b'require ["fileinto", "regex"]; if header :regex "Subject" "a.*" { fileinto "x"; }',
    b'require ["relational"]; if header :count "ge" "Subject" "1" { keep; }',
    b'require "relational"; require "date"; if currentdate :value "ge" "date" "2020-01-01" { stop; }',
    b'if header :regex "Subject" "a.*" { keep; }',
    b'if header :count "ge" "Subject" "1" { keep; }',
    b'require ["fileinto"]; fileinto "a";',
    b'fileinto "a";',
    b'require ["fileinto", "copy", "mailbox", "imap4flags", "envelope", "body", "vacation", "vacation-seconds", "reject", "variables", "date"];',
    b'require ["imap4flags"]; if hasflag "a" { keep; }',
    b'if hasflag "a" { keep; }',
    b'require ["fileinto"]; if anyof (true, header "a" ["b", "c"',
    b'if true { keep; ',
    b'require ["regex"',
    b'require ["regex"]; if header :regex ',
    b'keep; # Filter: x\nkeep',
    b"# Filter: a\n# Description: b\nif true { } # trailing",
    b'@',
    b'require "envelope"; if envelope :is "from" "x" { discard; }',
    b'if envelope :is "from" "x" { discard; }',
    b'require ["vacation-seconds", "vacation"]; vacation :seconds 5 "x";',
    b'require ["vacation"]; vacation :seconds 5 "x";',
    b'keep;',
    b'',
    # capability strings that are not extensions of the command table (RFC 5228 2.7.3 comparators, unknown names)
    b'require "comparator-i;ascii-numeric"; if header :comparator "i;ascii-numeric" "a" "1" { keep; }',
    b'if header :comparator "i;ascii-numeric" "a" "1" { keep; }',
    b'require ["comparator-i;octet", "comparator-i;ascii-casemap", "comparator-i;unicode-casemap"]; if address :comparator "i;unicode-casemap" "from" "x" { keep; }',
    b'if address :comparator "i;unicode-casemap" "from" "x" { keep; }',
    b'require ["encoded-character", "editheader", "foo"]; keep;',
    b'if envelope :comparator "i;octet" "from" "x" { keep; }',
]

DEFS = [
    {"conditions": [("Subject", ":is", "a")], "actions": [("fileinto", "A")], "matchtype": "anyof"},
    {"conditions": [("Subject", ":regex", "a.*")], "actions": [("keep",)], "matchtype": "anyof"},
    {"conditions": [("Subject", ":notregex", "a.*")], "actions": [("keep",)], "matchtype": "allof"},
    {"conditions": [("X-Count", ":count", "1")], "actions": [("stop",)], "matchtype": "anyof"},
    {"conditions": [("currentdate", ":zone", "+0100", ":value", "ge", "date", "2020-01-01")], "actions": [("discard",)], "matchtype": "anyof"},
    {"conditions": [("envelope", ":is", ["from"], ["x"]), ("body", ":raw", ":contains", "y")], "actions": [("redirect", ":copy", "z@example.org")],
     "matchtype": "allof"},
    {"conditions": [("address", ":regex", "from", "x.*")], "actions": [("vacation", ":seconds", 5, "away")], "matchtype": "anyof"},
    {"conditions": [("exists", "a")], "actions": [("fileinto", ":flags", ["\\Seen"], "B")], "matchtype": "anyof"},
]
NAMES = ["n1", "n2"]


CUSTOM_SCRIPTS = [
    b'vfparent "a";', b'vfchild "a" 5;', b'vfchild "a";', b'vfparent "a" 5;', b'if vftestp "a" { keep; }',
    b'if vftestc :x "a" "b" { keep; }', b'if vftestc "a" { keep; }', b'if vftestp :x "a" { keep; }', b'vfchild :copy "a" 5;',
    b'vfgrandchild "a" 5 "c";', b'vfgrandchild "a" 5;',
]
_CUSTOM_DONE = []


def ensure_custom():
    """Register (once per process) a small family of user-defined commands in which
    classes derive from other registered command classes, as an application that
    extends the parser may write them."""
    if _CUSTOM_DONE:
        return
    _CUSTOM_DONE.append(1)
    C = impl.sl_commands

    class VfparentCommand(C.ActionCommand):
        args_definition = [{"name": "what", "type": ["string"], "required": True}]

    class VfchildCommand(VfparentCommand):
        args_definition = [{"name": "what", "type": ["string"], "required": True}, {"name": "count", "type": ["number"], "required": True}]

    class VfgrandchildCommand(VfchildCommand):
        args_definition = VfchildCommand.args_definition + [{"name": "more", "type": ["string"], "required": True}]

    class VftestpCommand(C.TestCommand):
        args_definition = [{"name": "key", "type": ["string"], "required": True}]

    class VftestcCommand(VftestpCommand):
        args_definition = [{"name": "flag", "type": ["tag"], "values": [":x"], "required": False},
                           {"name": "key", "type": ["string"], "required": True}, {"name": "val", "type": ["string"], "required": True}]

    for cls in (VfparentCommand, VfchildCommand, VfgrandchildCommand, VftestpCommand, VftestcCommand):
        C.add_commands(cls)


_LAST_RESULT = [None]


def observe_parse(script, parser=None, custom=False):
    if custom:
        ensure_custom()
    o = impl.parse_outcome(script, parser=parser)
    _LAST_RESULT[0] = o.result if o.verdict is True else None
    obs = {"verdict": o.verdict, "exc": o.exc, "error": o.error, "error_pos": o.error_pos, "tree": None, "text": None}
    if o.verdict is True:
        try:
            obs["tree"] = impl.forest_of(o.result)
            obs["text"] = impl.render(o.result)
            obs["comments"] = [list(getattr(c, "hash_comments", [])) for c in o.result]
        except Exception as e:  # noqa: BLE001
            obs["tree"] = "walk/render raises " + impl.exc_bucket(e)
    return obs


def fs_step(fs, op):
    try:
        r = fsmodel.apply_op(fs, op, DEFS)
    except Exception as e:  # noqa: BLE001
        r = ("exc", impl.exc_bucket(e))
    try:
        text = str(fs)
    except Exception as e:  # noqa: BLE001
        text = "str raises " + impl.exc_bucket(e)
    return (r, text, list(fs.requires))


def execute(req):
    if req[0] == "parse":
        return observe_parse(req[1], custom=len(req) > 2 and req[2])
    if req[0] == "history":
        # run a whole history in this (pristine) process, with its own
        # pristine image for the comparisons
        pr = Pristine(execute)
        try:
            return run_history(req[1], pr)[0]
        finally:
            pr.close()
    fs = fsmodel.new_set()
    out = []
    for op in req[1]:
        out.append(fs_step(fs, op))
    return out


def first_key_diff(a, b):
    for k in a:
        if a.get(k) != b.get(k):
            return k
    return "?"


def run_history(steps, pristine):
    """steps: list of dicts. -> (fails, info)"""
    longlived = impl.Parser()
    sets = {}
    subhist = {}
    fails = []
    info = {"nontrivial": False}
    disturbed = False
    held = []
    for i, stp in enumerate(steps):
        k = stp["kind"]
        if k in ("parse-reused", "parse-fresh"):
            script = stp["script"]
            got = observe_parse(script, longlived if k == "parse-reused" else None, custom=stp.get("custom", False))
            # results the caller still holds must not change when the same or another Parser parses again
            changed = None
            for hi, hres, htext, htree in held:
                try:
                    now_text, now_tree = impl.render(hres), impl.forest_of(hres)
                except Exception as e:  # noqa: BLE001
                    now_text, now_tree = "render raises " + impl.exc_bucket(e), None
                if now_text != htext or now_tree != htree:
                    changed = (hi, htext, now_text)
                    break
            if changed is not None:
                fails.append(("earlier-result-changed-by-a-later-parse|%s" % k,
                              {"steps": steps[: i + 1], "result_of_step": changed[0], "serialisation_then": changed[1], "serialisation_now": changed[2]}))
                break
            if _LAST_RESULT[0] is not None and got.get("text") is not None and not isinstance(got.get("tree"), str):
                held.append((i, _LAST_RESULT[0], got["text"], got["tree"]))
            exp = pristine.query(("parse", script, stp.get("custom", False)))
            if disturbed:
                info["nontrivial"] = True
            if got != exp:
                key = first_key_diff(exp, got)
                fails.append(("parse-depends-on-history|%s|%s" % (k, key),
                              {"steps": steps[: i + 1], "differs_in": key, "pristine": core.jsonable(exp.get(key)), "here": core.jsonable(got.get(key))}))
                break
            if exp["verdict"] is not True or exp["exc"] or b"require" in script.lower():
                disturbed = True
        else:
            sid = stp["set"]
            if sid not in sets:
                sets[sid] = fsmodel.new_set()
                subhist[sid] = []
            got = fs_step(sets[sid], stp["op"])
            subhist[sid].append(stp["op"])
            exp = pristine.query(("fs", subhist[sid]))[-1]
            if disturbed:
                info["nontrivial"] = True
            if got != exp:
                which = "result" if got[0] != exp[0] else "text" if got[1] != exp[1] else "requires"
                fails.append(("filterset-depends-on-history|%s|%s" % (stp["op"]["op"], which),
                              {"steps": steps[: i + 1], "pristine": core.jsonable(exp), "here": core.jsonable(got)}))
                break
            if got[0][0] == "exc":
                disturbed = True
    return fails, info


def all_fs_ops():
    ops = []
    for n in NAMES:
        for d in range(len(DEFS)):
            ops.append({"op": "add", "name": n, "def": d})
            ops.append({"op": "update", "name": n, "newname": n, "def": d})
        ops += [{"op": "disable", "name": n}, {"op": "enable", "name": n}, {"op": "remove", "name": n},
                {"op": "move", "name": n, "dir": "down"}]
        ops.append({"op": "replace", "name": n, "newname": None, "def": 1, "description": "d"})
    return ops


def first_contact_histories():
    """For every command and test X of the supported language: histories whose FIRST
    use of X in the process is an irregular one (a tag - valid for X or not, with or
    without parameter - at every position of X's minimal use, X cut off right after
    the tag, X alone), followed by regular uses of X with each of its tags, a few
    FiltersSet operations, and the irregular use once more.  Each history is run in
    a process forked from the pristine image."""
    from ..refsieve import TABLE, SUPPORTED_EXTENSIONS, analyze, VALID
    from ..gen import tokens as T
    req = [b"require", b"["]
    for i, x in enumerate(SUPPORTED_EXTENSIONS):
        if i:
            req.append(b",")
        req.append(b'"%s"' % x.encode())
    req += [b"]", b";"]
    params = [[], [b'"i;octet"'], [b'"ge"'], [b'"x"'], [b"7"], [b"[", b'"x"', b"]"]]
    fs_tail = [{"kind": "fs", "set": "A", "op": {"op": "add", "name": "n1", "def": d}} for d in (1, 4, 5, 6, 7)]
    for name in sorted(TABLE):
        exts, toks, at = pspace.minimal_use(name)
        end = len(toks)
        regular = []
        tagged = []
        for tag in T.TAGS:
            for par in params:
                cand = req + toks[:at] + [tag] + par + toks[at:]
                if analyze(S.canonical(cand)).verdict == VALID:
                    regular.append(S.canonical(cand))
                    tagged.append((tag, par))
                    break
        regular.append(S.canonical(req + toks))
        irregular = []
        for tag, par in tagged + [(T.UNKNOWN_TAG, []), (T.UNKNOWN_TAG, [b'"x"'])]:
            for pos in range(at, end + 1):
                irregular.append(req + toks[:pos] + [tag] + par + toks[pos:])
            irregular.append(req + toks[:at] + [tag])
            irregular.append(req + toks[:at] + [tag] + par)
            irregular.append(toks[:at] + [tag] + par + toks[at:])  # without require
        irregular.append(req + toks[:at])
        irregular.append(req + toks[:at] + [b";"])
        seen = set()
        for irr in irregular:
            text = S.canonical(irr)
            if text in seen or text in regular:
                continue
            seen.add(text)
            for reused in (False, True):
                kind = "parse-reused" if reused else "parse-fresh"
                steps = [{"kind": kind, "script": text}] + [{"kind": kind, "script": r} for r in regular] + fs_tail + \
                        [{"kind": kind, "script": text}]
                yield name.decode(), steps


def custom_histories():
    import itertools
    for n in (2, 3):
        for combo in itertools.permutations(CUSTOM_SCRIPTS, n):
            yield "custom-commands", [{"kind": "parse-fresh", "script": sc, "custom": True} for sc in combo]


CARRY_FIRST = [
    b'if true { keep; }', b'if true { keep; } elsif false { stop; }', b'if true { keep; } else { stop; }',
    b'if true { if false { keep; ', b'if true { if false { keep; } foo; }', b'if true { keep; } foo;', b'if true { keep', b'if anyof (true,',
    b'if true { keep; } keep;', b'if true {', b'if true { keep; } @', b'if true { keep; } elsif', b'if true { keep; } else {',
    b'if true { keep; } else { stop; } else { keep; }', b'if not', b'if anyof (true, allof (false', b'keep', b'keep; if true { "x" }',
    b'require ["fileinto"]; if true { fileinto "x"; } elsif true { fileinto :copy "y"; }', b'if header ["a", "b"', b'if header :is',
]
CARRY_SECOND = [
    b'else { keep; }', b'elsif true { keep; }', b'keep;', b'if true { stop; }', b'stop; keep;', b'} keep;', b') { keep; }', b', true) { keep; }',
    b'if true { keep; } else { stop; }', b'true', b'{ keep; }', b'"b"] "c" { keep; }', b'"a" "b" { keep; }', b'if true { else { keep; } }',
    b'if true { keep; elsif true { stop; } }', b'; keep;', b'if true { keep; } elsif false { stop; } else { discard; }',
]


def carry_histories():
    """Control-structure state must not survive from one parse to the next on a long-lived Parser:
    every ordered pair (and pairs separated by a plain script) of what one script leaves open or
    ends with and what the next one starts with."""
    for a in CARRY_FIRST:
        for b in CARRY_SECOND:
            yield "carry-over", [{"kind": "parse-reused", "script": a}, {"kind": "parse-reused", "script": b}]
            yield "carry-over", [{"kind": "parse-reused", "script": a}, {"kind": "parse-fresh", "script": b}]
    for a in CARRY_FIRST:
        for b in CARRY_SECOND[:4]:
            yield "carry-over", [{"kind": "parse-reused", "script": a}, {"kind": "parse-reused", "script": b'keep;'}, {"kind": "parse-reused", "script": b}]


def first_contact_worker(arg):
    k, n = arg
    pristine = Pristine(execute)
    col = core.Collector()
    try:
        import itertools
        for i, (name, steps) in enumerate(itertools.chain(first_contact_histories(), custom_histories(), carry_histories())):
            if i % n != k:
                continue
            fails = pristine.query(("history", steps))
            col.case(key=repr(steps), nontrivial=True, classes=["first-contact", "first-contact:" + name],
                     sample={"steps": steps[:2], "first_contact_with": name} if i % 211 == 0 else None)
            for b, d in fails:
                col.fail(b + "|first-contact", {"steps": d["steps"]}, d, size=len(d["steps"]) * 1000 + len(repr(d["steps"])))
    finally:
        pristine.close()
    return col


def any_worker(arg):
    if arg[0] == "fc":
        return first_contact_worker(arg[1])
    return worker(arg[1])


def worker(arg):
    sd, n, nsteps = arg
    pristine = Pristine(execute)  # before this process touches sievelib
    col = core.Collector()
    fs_ops = all_fs_ops()
    try:
        class Machine(RuleBasedStateMachine):
            def __init__(self):
                super().__init__()
                self.steps = []

            @rule(script=st.sampled_from(FIXED_SCRIPTS), reused=st.booleans())
            def parse_fixed(self, script, reused):
                self.steps.append({"kind": "parse-reused" if reused else "parse-fresh", "script": script})

            @rule(script=st.sampled_from(CUSTOM_SCRIPTS), reused=st.booleans())
            def parse_custom(self, script, reused):
                self.steps.append({"kind": "parse-reused" if reused else "parse-fresh", "script": script, "custom": True})

            @rule(data=st.data(), reused=st.booleans())
            def parse_generated(self, data, reused):
                toks = data.draw(S.valid_script(hostile=False, maxdepth=2, maxcmds=2))
                mode = data.draw(st.sampled_from(["valid", "truncated", "mutant", "norequire"]))
                if mode == "truncated" and len(toks) > 1:
                    toks = toks[: data.draw(st.integers(1, len(toks) - 1))]
                elif mode == "mutant":
                    toks = data.draw(S.mutate(toks))[1]
                elif mode == "norequire":
                    while toks and toks[0].lower() == b"require":
                        toks = toks[toks.index(b";") + 1:]
                self.steps.append({"kind": "parse-reused" if reused else "parse-fresh", "script": S.canonical(toks)})

            @rule(op=st.sampled_from(fs_ops), sid=st.sampled_from(["A", "B"]))
            def fs_op(self, op, sid):
                self.steps.append({"kind": "fs", "set": sid, "op": op})

            def teardown(self):
                if not self.steps:
                    return
                fails, info = run_history(self.steps, pristine)
                kinds = {s["kind"] for s in self.steps}
                sample = None
                if info["nontrivial"] and col.evals % 29 == 0:
                    sample = {"steps": self.steps}
                col.case(key=repr(self.steps), nontrivial=info["nontrivial"], classes=["kind:" + k for k in kinds], sample=sample)
                for b, d in fails:
                    col.fail(b, {"steps": d["steps"]}, d, size=len(d["steps"]) * 1000 + len(repr(d["steps"])))

        run_state_machine_as_test(
            hypothesis.seed(sd)(Machine),
            settings=hypothesis.settings(max_examples=n, stateful_step_count=nsteps, database=None, deadline=None,
                                         report_multiple_bugs=False, suppress_health_check=list(hypothesis.HealthCheck),
                                         phases=[hypothesis.Phase.generate]))
    finally:
        pristine.close()
    return col


def replay(case):
    return _replay_pristine().query(("history", case["steps"]))


_PR = None


def _replay_pristine():
    """Replay happens in the main process, which may already have used
    sievelib: fork the pristine server from a freshly exec'ed interpreter is
    overkill - instead the server is created at import time of a replay (see
    main/run) when nothing has been parsed yet."""
    global _PR
    if _PR is None:
        _PR = Pristine(execute)
    return _PR


def shrink(case, bucket, budget):
    pr = _replay_pristine()

    def still(steps):
        return any(b == bucket for b, _ in pr.query(("history", steps)))

    return {"steps": core.ddmin(case["steps"], still, budget)}


def main(tier, seed, t0):
    _replay_pristine()  # main process has not used sievelib yet
    quick = tier == "quick"
    shards = [("sm", (seed * 1000 + 1300 + k, 80 if quick else 1500, 25)) for k in range(16)]
    shards += [("fc", (k, 16)) for k in range(16)]
    col = core.run_shards(any_worker, shards)
    need = ["kind:parse-reused", "kind:parse-fresh", "kind:fs", "first-contact"]
    missing = [c for c in need if not col.classes.get(c)]
    if missing:
        raise core.HarnessError("generator classes empty: %s" % missing)
    col.exhaustive = False
    return core.finish(PROP, tier, seed, "exploration", col, RULE, t0, sys.modules[MOD],
                       assumptions=["'pristine' = a process forked from a server that imported sievelib and executed nothing else (vf/pristine.py)",
                                    "observations compared: verdict, error text, error_pos, harness tree, tosieve text, hash comments, exception bucket; "
                                    "FiltersSet: return value/exception, str(fs), requires after every operation"])
