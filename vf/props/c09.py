"""C09 - Operation results mirror the server's status reply."""

import sys

from hypothesis import given, seed as hseed, strategies as st

from .. import core, pspace
from ..msref import wire, replies as R
from ..msref.transport import Session, ScriptedPeer

PROP = "C09"
MOD = __name__

RULE = ("every client operation x Hypothesis status reply from the RFC 5804 response grammar (OK/NO/BYE x response code absent | "
        "atom | atom/atom | atom with parameter x text absent | quoted with escapes | literal incl. multi-line; data before the "
        "status for data-bearing operations), plus NO/BYE at each step of multi-step operations (AUTHENTICATE, STARTTLS, the five "
        "steps of emulated rename; each SASL mechanism with seven reply shapes at every point where the server may end the exchange, errcode/errmsg compared); oracle computed from the abstract reply: OK => True/data, NO => False/None with errcode = "
        "response code and errmsg = decoded text, BYE => managesieve.Error; a sentinel operation afterwards must succeed and leave "
        "no bytes. Non-trivial = reply is not 'OK \"<text>\"'; distinct by (operation, reply bytes).")

SENTINEL = wire.status_line(b"OK", None, b"sentinel")


def expected_err(rep):
    s = rep["status"]
    code = s["code"]
    if code is None:
        codes = [b""]
    elif code[1] is None:
        codes = [code[0]]
    else:
        codes = [code[0], code[0] + b" " + wire.enc_string(code[1], code[2]), code[0] + b" " + code[1], code[0] + b" " + wire.enc_quoted(code[1])]
    return codes, (s["text"] if s["text"] is not None else b"")


def run_op(rep, greeting=R.GREETING, pre=()):
    peer = ScriptedPeer(greeting, [R.AUTH_OK] + list(pre) + [rep["bytes"], SENTINEL])
    s = Session(peer)
    r = s.call("connect", "user", "pass")
    if r != ("ret", True):
        raise core.HarnessError("scripted connect failed: %r" % (r,))
    got = s.call(rep["op"], *R.op_args(rep["op"]))
    return s, peer, got


def check_reply(rep):
    """-> list of (bucket, detail)"""
    s, peer, got = run_op(rep)
    out = []
    exp = R.expected(rep)
    stt = rep["status"]
    shape = "%s|code=%s|text=%s" % (stt["status"].decode(), "none" if stt["code"] is None else ("param" if stt["code"][1] is not None else "atom"),
                                    "none" if stt["text"] is None else stt["text_form"])
    det = {"op": rep["op"], "reply": rep["bytes"], "expected": exp, "got": got}
    ok = True
    if exp == ("ret", ("raw", rep["data"]["raw"])) if rep["data"] and "raw" in rep["data"] else False:
        ok = got[0] == "ret" and got[1] is not None
    else:
        ok = R.matches(exp, got)
    if not ok:
        what = "exception:" + got[1] if got[0] == "exc" else "value"
        out.append(("result-mismatch|%s|%s|%s" % (rep["op"] if rep["op"] in ("listscripts", "getscript", "capability") else "boolean-op", shape, what), det))
        # do not look at the sentinel: the session is probably out of step
        s.close()
        return out
    if stt["status"] == b"NO":
        codes, text = expected_err(rep)
        ec, em = s.client.errcode, s.client.errmsg
        if isinstance(em, str):
            em = em.encode("utf-8")
        if isinstance(ec, str):
            ec = ec.encode("utf-8")
        if ec not in codes:
            d = dict(det)
            d.update(errcode=ec, expected_errcode=codes)
            out.append(("errcode-mismatch|%s" % shape, d))
        if em != text:
            d = dict(det)
            d.update(errmsg=em, expected_errmsg=text)
            out.append(("errmsg-mismatch|%s" % shape, d))
    if stt["status"] == b"NO":
        # a following NO without text (bare, or with a code only) to ANY operation must not
        # leave this reply's code/text behind; operation and form chosen by the reply's hash
        h = core.h64(rep["bytes"] + rep["op"].encode())
        op2 = R.OPS[h % len(R.OPS)]
        bare = (h >> 8) % 2 == 0
        peer.replies.insert(0, b"NO\r\n" if bare else b"NO (TRYLATER)\r\n")
        g3 = s.call(op2, *R.op_args(op2))
        ec3, em3 = s.client.errcode, s.client.errmsg
        want = ("ret", None if op2 in ("capability", "listscripts", "getscript") else False)
        if g3 != want or (ec3 or b"") != (b"" if bare else b"TRYLATER") or (em3 or b"") != b"":
            d = dict(det)
            d.update(second_op=op2, second_reply=b"NO" if bare else b"NO (TRYLATER)", result=g3, errcode=ec3, errmsg=em3)
            out.append(("stale-errcode-or-errmsg-after-textless-NO|%s|then=%s" % (shape, op2 if op2 in ("capability",) else "other"), d))
    if stt["status"] != b"BYE":
        g2 = s.call("havespace", "sentinel", 1)
        if g2 != ("ret", True) or s.sock.inq:
            d = dict(det)
            d.update(sentinel=g2, leftover=bytes(s.sock.inq))
            out.append(("reply-not-fully-consumed|%s" % shape, d))
    s.close()
    return out


# --- multi-step operations --------------------------------------------------

def multistep_cases():
    """(label, runner) where runner() -> list of fails"""
    cases = []
    no = wire.status_line(b"NO", (b"TRYLATER", None, None), b"later")
    bye = wire.status_line(b"BYE", None, b"bye")
    listing = wire.listing_line(b"old", True, "quoted") + wire.listing_line(b"x", False, "quoted") + wire.status_line(b"OK", None, b"ok")
    body = wire.enc_literal(b"keep;\r\n") + wire.CRLF + wire.status_line(b"OK", None, b"ok")
    okl = wire.status_line(b"OK", None, b"ok")
    seq = [listing, body, okl, okl, okl]  # LISTSCRIPTS GETSCRIPT PUTSCRIPT SETACTIVE DELETESCRIPT
    names = ["LISTSCRIPTS", "GETSCRIPT", "PUTSCRIPT", "SETACTIVE", "DELETESCRIPT"]
    for k in range(5):
        for kind, rep in (("NO", no), ("BYE", bye)):
            cases.append({"kind": "emulated-rename", "step": names[k], "fault": kind, "replies": seq[:k] + [rep]})
    for kind, rep in (("NO", no), ("BYE", bye), ("OK", okl)):
        cases.append({"kind": "authenticate", "step": "AUTHENTICATE", "fault": kind, "replies": [rep]})
    for kind, rep in (("NO", no), ("BYE", bye)):
        cases.append({"kind": "starttls", "step": "STARTTLS", "fault": kind, "replies": [rep]})
    # every SASL mechanism, status reply at each point where the server may end the exchange, in several reply shapes
    shapes = [("NO", (b"TRYLATER", None, None), b"later", "quoted"), ("NO", None, b"wrong password", "quoted"), ("NO", (b"QUOTA", b"MAXSIZE", "quoted"), None, None),
              ("NO", None, b"line one\r\nline two", "literal"), ("NO", None, None, None), ("BYE", None, b"bye", "quoted"), ("OK", None, b"welcome", "quoted")]
    for mech, nsteps in (("PLAIN", 1), ("LOGIN", 1), ("OAUTHBEARER", 1), ("DIGEST-MD5", 3)):
        for step in range(1, nsteps + 1):
            for k, (status, code, text, form) in enumerate(shapes):
                if status == "OK" and mech == "DIGEST-MD5" and step < 3:
                    continue  # OK without rspauth verification: what the client does then is SASL's business, not C09's
                cases.append({"kind": "sasl", "mech": mech, "step": "%s-%d" % (mech, step), "at": step, "fault": status, "shape": k,
                              "code": code, "text": text, "form": form})
    return cases


def sasl_replies(c):
    """Canned (or computed) server side of one SASL exchange ending with the case's status reply at step c['at']."""
    import base64
    from ..msref import sasl
    final = wire.status_line(c["fault"].encode(), tuple(c["code"]) if c["code"] else None, c["text"], c["form"] or "quoted")
    if c["mech"] != "DIGEST-MD5":
        return [final]
    chal = wire.enc_quoted(base64.b64encode(sasl.digest_challenge("r", "nonce123"))) + wire.CRLF

    def rspauth(peer, cmd):
        raw = peer.violations.pop()[1] if cmd is None else cmd.raw
        val, _ = wire.parse_string_line(raw)
        rec = sasl.digest_verify(sasl.b64d(val), "r", "nonce123", "p", "server.example.org")
        return wire.enc_quoted(base64.b64encode(rec["rspauth"])) + wire.CRLF

    return ([chal, rspauth, final][: c["at"] - 1] + [final]) if c["at"] < 3 else [chal, rspauth, final]


def run_multistep(c):
    out = []
    if c["kind"] == "emulated-rename":
        peer = ScriptedPeer(R.GREETING_NOVERSION, [R.AUTH_OK] + c["replies"])
        s = Session(peer)
        if s.call("connect", "u", "p") != ("ret", True):
            raise core.HarnessError("connect failed")
        got = s.call("renamescript", "old", "new")
    elif c["kind"] == "authenticate":
        peer = ScriptedPeer(R.GREETING, c["replies"])
        s = Session(peer)
        got = s.call("connect", "u", "p")
    elif c["kind"] == "sasl":
        greeting = R.GREETING.replace(wire.capability_line(b"SASL", b"PLAIN"), wire.capability_line(b"SASL", c["mech"].encode()))
        peer = ScriptedPeer(greeting, sasl_replies(c) + [SENTINEL])
        s = Session(peer)
        got = s.call("connect", "u", "p")
        if c["fault"] == "NO" and got == ("ret", False):
            codes = [b""] if c["code"] is None else [c["code"][0], c["code"][0] + b" " + wire.enc_quoted(c["code"][1])] if c["code"][1] else [c["code"][0]]
            ec, em = s.client.errcode, s.client.errmsg
            if ec not in codes or em != (c["text"] or b""):
                out.append(("multistep-errcode-or-errmsg-mismatch|sasl|%s" % c["step"],
                            {"case": c, "errcode": ec, "errmsg": em, "expected_errcode_one_of": codes, "expected_errmsg": c["text"] or b""}))
        if c["fault"] == "OK" and got == ("ret", True):
            g2 = s.call("havespace", "sentinel", 1)
            if g2 != ("ret", True) or s.sock.inq:
                out.append(("multistep-reply-not-fully-consumed|sasl|%s" % c["step"], {"case": c, "sentinel": g2}))
    else:
        greeting = R.GREETING.replace(wire.capability_line(b"VERSION", b"1.0"), wire.capability_line(b"VERSION", b"1.0") + wire.capability_line(b"STARTTLS"))
        peer = ScriptedPeer(greeting, c["replies"])
        s = Session(peer)
        got = s.call("connect", "u", "p", starttls=True)
    exp = ("exc", "Error") if c["fault"] == "BYE" else ("ret", c["fault"] == "OK")
    if not R.matches(exp, got):
        out.append(("multistep-result-mismatch|%s|%s|%s" % (c["kind"], c["step"], c["fault"]),
                    {"case": {k: v for k, v in c.items() if k != "replies"}, "expected": exp, "got": got, "violations": [v[0] for v in peer.violations][:3]}))
    s.close()
    return out


def worker(arg):
    sd, n = arg
    col = core.Collector()

    @pspace.hyp_settings(n)
    @hseed(sd)
    @given(st.data())
    def body(data):
        op = data.draw(st.sampled_from(R.OPS))
        rep = data.draw(R.reply(op))
        fails = check_reply(rep)
        stt = rep["status"]
        nt = not (stt["status"] == b"OK" and stt["code"] is None and stt["text"] is not None and stt["text_form"] == "quoted")
        classes = ["op:" + op, "status:" + stt["status"].decode(), "code:" + ("none" if stt["code"] is None else "param" if stt["code"][1] is not None else "atom"),
                   "text:" + ("none" if stt["text"] is None else stt["text_form"])]
        sample = None
        if nt and col.evals % 67 == 0:
            sample = {"op": op, "reply": rep["bytes"]}
        col.case(key=op.encode() + rep["bytes"], nontrivial=nt, classes=classes, sample=sample)
        for b, d in fails:
            col.fail(b, {"kind": "reply", "rep": rep}, d)

    body()
    if sd % 1000 == 0 or True:
        for c in multistep_cases():
            fails = run_multistep(c)
            col.case(key=repr({k: v for k, v in c.items() if k != "replies"}), nontrivial=True, classes=["multistep:" + c["kind"]])
            for b, d in fails:
                col.fail(b, {"kind": "multistep", "case": c}, d)
    return col


def replay(case):
    if case["kind"] == "multistep":
        return run_multistep(case["case"])
    rep = case["rep"]
    stt = rep["status"]
    if stt["code"] is not None:
        stt["code"] = tuple(stt["code"])
    if rep["data"] and "caps" in rep["data"]:
        rep["data"]["caps"] = [tuple(x) for x in rep["data"]["caps"]]
    return check_reply(rep)


def main(tier, seed, t0):
    quick = tier == "quick"
    col = core.run_shards(worker, [(seed * 1000 + 1400 + k, 1000 if quick else 10000) for k in range(16)])
    need = ["op:" + o for o in R.OPS] + ["status:OK", "status:NO", "status:BYE", "code:none", "code:atom", "code:param",
                                          "text:none", "text:quoted", "text:literal", "multistep:emulated-rename", "multistep:starttls", "multistep:sasl"]
    missing = [c for c in need if not col.classes.get(c)]
    if missing:
        raise core.HarnessError("generator classes empty: %s" % missing)
    col.exhaustive = False
    return core.finish(PROP, tier, seed, "exploration", col, RULE, t0, sys.modules[MOD],
                       assumptions=["for a parameterised response code errcode may be the atom alone or the full inner text",
                                    "capability(): only 'not None on OK / None on NO' is asserted (the format of the returned data is not fixed by the property)",
                                    "replies are delivered in one chunk here (segmentation is C05's subject)"])
