"""C16 - SASL: the right mechanism, carrying exactly the caller's credentials."""

import itertools
import sys

from hypothesis import given, seed as hseed, strategies as st

from .. import core, pspace
from ..msref.server import RefServer
from ..msref.transport import Session, FakeSocket

PROP = "C16"
MOD = __name__

RULE = ("announced SASL lists: every ordered selection of up to 4 of {DIGEST-MD5, PLAIN, LOGIN, OAUTHBEARER, SCRAM-SHA-1, GSSAPI, "
        "X-PLAIN-SUBMIT, XOAUTHBEARER, NTLM-LOGIN} "
        "incl. the empty list and a missing SASL capability (enumerated) x preferred mechanism {None, each implemented, two "
        "unimplemented names} x (for all pairs of lists of at most two mechanisms) an earlier connect of the same Client to a server announcing "
        "another list x credentials of every total length from 1 to 140 octets x Hypothesis unicode credentials (NUL-free; commas, '=', quotes, spaces, non-ASCII, "
        "text that NFC/NFKC/case mapping/trimming would change; empty or "
        "non-empty authorisation id) x server verdict; oracle: mechanism-selection rule; payload decoded by reference SASL servers "
        "(RFC 4616 PLAIN, LOGIN, RFC 7628 OAUTHBEARER with RFC 5801 escaping, RFC 2831 DIGEST-MD5 with response= recomputed) equals "
        "the caller's values; connect is True iff the server accepted, Client.authenticated likewise; no AUTHENTICATE when no "
        "mechanism qualifies. Non-trivial = credentials with a non-ASCII or separator character, or >= 2 implemented mechanisms "
        "announced; distinct by (list, authmech, credentials).")

# unknown mechanisms include names that merely contain an implemented one
MECHS = ["DIGEST-MD5", "PLAIN", "LOGIN", "OAUTHBEARER", "SCRAM-SHA-1", "GSSAPI", "X-PLAIN-SUBMIT", "XOAUTHBEARER", "NTLM-LOGIN"]
IMPL = ["DIGEST-MD5", "PLAIN", "LOGIN", "OAUTHBEARER"]
AUTHMECHS = [None, "DIGEST-MD5", "PLAIN", "LOGIN", "OAUTHBEARER", "SCRAM-SHA-1", "NTLM"]
CRED_PARTS = ["a", "b", "Z", "0", ",", "=", '"', "\\", " ", "é", "€", "😀", "@", ".", ":", "=2C", "'", "user", "pass",
              # text that Unicode normalisations, case mappings or trimming would change
              "\ufb01", "e\u0301", "\u212b", "\u2168", "\u00a0", "\u00ad", "\uff46", "\u0130", "\u00df", "\t", "A", "x" * 23]


def all_lists():
    out = [None, []]
    for k in range(1, 5):
        for p in itertools.permutations(MECHS, k):
            out.append(list(p))
    return out


def cred():
    return st.lists(st.sampled_from(CRED_PARTS), min_size=1, max_size=5).map("".join)


def expected_mech(sasl, authmech):
    if sasl is None:
        return None
    if authmech in IMPL:
        return authmech if authmech in sasl else None
    for m in IMPL:
        if m in sasl:
            return m
    return None


def check(sasl, authmech, login, password, authz, verdict, refuse=False, realm="example.org", nonce="OA6MG9tEQGm2hh", first=None):
    """first = (announced list, verdict) of a server the same Client connected to before."""
    cfg = {"sasl": sasl, "auth_ok": verdict, "password": password, "realm": realm, "nonce": nonce}
    if refuse:
        # the server answers the initial AUTHENTICATE of whatever mechanism with NO
        cfg["faults"] = [(b"AUTHENTICATE", 0, "NO")]
        verdict = False
    srv = RefServer(cfg)
    if first is not None:
        srv0 = RefServer({"sasl": first[0], "auth_ok": first[1], "password": "pw0"})
        s = Session(srv0)
        s.call("connect", "user0", "pw0")
        s.peer = srv
        s.sock = FakeSocket(srv)
    else:
        s = Session(srv)
    res = s.call("connect", login, password, authz, authmech=authmech)
    det = {"earlier_connection_of_the_same_client": first, "sasl": sasl, "authmech": authmech, "login": login, "password": password, "authz_id": authz, "server_accepts": verdict,
           "result": res, "attempts": srv.auth_attempts, "decoded": srv.auth_record, "violations": srv.violations,
           "written": s.sock.written()}
    authenticated = s.client.authenticated
    s.close()
    out = []
    exp = expected_mech(sasl, authmech)
    attempts = [m for _, m in srv.auth_attempts]
    if exp is None:
        if attempts:
            out.append(("credentials-sent-although-no-mechanism-qualifies|tried=%s" % attempts[0], det))
        if res == ("ret", True) or authenticated:
            out.append(("connect-succeeds-without-mechanism", det))
        if res[0] == "exc" and res[1] != "Error":
            out.append(("connect-raises|%s" % res[1], det))
        return out, exp
    if res[0] == "exc":
        out.append(("connect-raises|mech=%s|%s" % (exp, res[1]), det))
        return out, exp
    if refuse:
        sent = [c.args[0].decode() for _, c in srv.log if c.verb == b"AUTHENTICATE"]
        if sent != [exp]:
            out.append(("another-attempt-after-refused-AUTHENTICATE|expected=%s|sent=%s" % (exp, ",".join(sent) or "none"), det))
        if res == ("ret", True) or authenticated:
            out.append(("connect-succeeds-after-refused-AUTHENTICATE|mech=%s" % exp, det))
        return out, exp
    if attempts != [exp]:
        out.append(("wrong-mechanism|expected=%s|tried=%s" % (exp, ",".join(attempts) or "none"), det))
        return out, exp
    if srv.violations:
        out.append(("protocol-violation|mech=%s|%s" % (exp, srv.violations[0][0]), det))
    rec = srv.auth_record or {}
    if "error" in rec:
        out.append(("payload-malformed|mech=%s" % exp, det))
    else:
        if exp == "OAUTHBEARER":
            if rec.get("user") != login:
                out.append(("payload-login-differs|mech=%s" % exp, det))
            if rec.get("token") != password:
                out.append(("payload-password-differs|mech=%s" % exp, det))
        else:
            if rec.get("login") != login:
                out.append(("payload-login-differs|mech=%s" % exp, det))
            if exp != "DIGEST-MD5" and rec.get("password") != password:
                out.append(("payload-password-differs|mech=%s" % exp, det))
            if exp in ("PLAIN", "DIGEST-MD5") and rec.get("authzid") != authz:
                out.append(("payload-authzid-differs|mech=%s" % exp, det))
    ok = verdict and "error" not in rec
    if (res == ("ret", True)) != ok or res[1] not in (True, False):
        out.append(("connect-result-differs-from-server-verdict|mech=%s" % exp, det))
    if bool(authenticated) != ok:
        out.append(("authenticated-flag-differs-from-server-verdict|mech=%s" % exp, det))
    return out, exp


def worker(arg):
    idx, nshards, sd, per = arg
    col = core.Collector()
    lists = all_lists()
    mine = [l for i, l in enumerate(lists) if i % nshards == idx]

    @pspace.hyp_settings(len(mine) * per)
    @hseed(sd)
    @given(st.data())
    def body(data):
        sasl = data.draw(st.sampled_from(mine))
        authmech = data.draw(st.sampled_from(AUTHMECHS))
        login = data.draw(cred())
        password = data.draw(cred())
        authz = data.draw(st.one_of(st.just(""), cred()))
        verdict = data.draw(st.booleans())
        realm = data.draw(st.sampled_from(["example.org", None, "ex ample", "r\u00e9alm", "dc=example"]))
        nonce = data.draw(st.sampled_from(["OA6MG9tEQGm2hh", "OA6MG9tEQGm2hh==", "a=b", "x+/y=", "0123456789abcdef"]))
        if data.draw(st.integers(0, 9)) == 0:
            password = ""
        fails, exp = check(sasl, authmech, login, password, authz, verdict, realm=realm, nonce=nonce)
        nimpl = len([m for m in (sasl or []) if m in IMPL])
        nt = nimpl >= 2 or any((ord(c) > 127 or c in ',="\\ ') for c in login + password + authz)
        classes = ["mech:%s" % exp, "authmech:%s" % authmech, "verdict:%s" % verdict, "sasl:" + ("missing" if sasl is None else "empty" if not sasl else "n=%d" % len(sasl))]
        if authz:
            classes.append("authz:nonempty")
        sample = {"sasl": sasl, "authmech": authmech, "login": login, "password": password, "authz": authz, "verdict": verdict} if nt and col.evals % 89 == 0 else None
        col.case(key=repr((sasl, authmech, login, password, authz, verdict)), nontrivial=nt, classes=classes, sample=sample)
        for b, d in fails:
            col.fail(b, {"sasl": sasl, "authmech": authmech, "login": login, "password": password, "authz": authz, "verdict": verdict, "realm": realm, "nonce": nonce}, d,
                     size=len(login) + len(password) + len(authz) + 5 * len(sasl or []))

    body()
    # every list x authmech once with fixed credentials (exhaustive selection part)
    for sasl in mine:
        for authmech in AUTHMECHS:
            if len(sasl or []) >= 2:
                f2, e2 = check(sasl, authmech, "user", "secret", "", True, refuse=True)
                col.case(key=None, nontrivial=True, classes=["refused-initial-AUTHENTICATE"])
                for b, d in f2:
                    col.fail(b, {"sasl": sasl, "authmech": authmech, "login": "user", "password": "secret", "authz": "", "verdict": True, "refuse": True}, d, size=5 * len(sasl or []))
            fails, exp = check(sasl, authmech, "user", "secret", "", True)
            col.case(key=None, nontrivial=len([m for m in (sasl or []) if m in IMPL]) >= 2, classes=["selection-exhaustive", "mech:%s" % exp])
            for b, d in fails:
                col.fail(b, {"sasl": sasl, "authmech": authmech, "login": "user", "password": "secret", "authz": "", "verdict": True}, d, size=5 * len(sasl or []))
    # message lengths: every total length of the credentials from 1 to 140 octets (base64 line
    # folding at 57 / 76, literals above some size, padding classes), for each mechanism
    for n in range(1, 141):
        if n % nshards != idx:
            continue
        for mech in IMPL:
            for split in (0, 1, 2):
                login = ("u" * n) if split == 0 else "u" if split == 1 else "u" * (n // 2 + 1)
                password = "p" if split == 0 else ("p" * n) if split == 1 else "p" * (n - n // 2)
                fails, exp = check([mech], None, login, password, "", True)
                col.case(key=None, nontrivial=True, classes=["length-sweep", "mech:%s" % exp])
                for b, d in fails:
                    col.fail(b + "|length-sweep", {"sasl": [mech], "authmech": None, "login": login, "password": password, "authz": "", "verdict": True}, d,
                             size=n)
    # the same Client connecting a second time, to a server announcing something else:
    # every pair of short lists x authmech x outcome of the first connect
    sl = small_lists()
    pairs = [(a, b) for a in sl for b in sl if a != b]
    for i, (l0, l1) in enumerate(pairs):
        if i % nshards != idx:
            continue
        for authmech in AUTHMECHS[:6]:
            for v0 in (True, False):
                first = (l0, v0)
                fails, exp = check(l1, authmech, "user", "secret", "", True, first=first)
                col.case(key=None, nontrivial=True, classes=["second-connect", "mech:%s" % exp])
                for b, d in fails:
                    col.fail(b + "|second-connect", {"sasl": l1, "authmech": authmech, "login": "user", "password": "secret", "authz": "", "verdict": True,
                                                    "first": list(first)}, d, size=5 * len(l1 or []) + 5 * len(l0 or []))
    return col


def small_lists():
    out = [None, []]
    pool = IMPL + ["SCRAM-SHA-1"]
    for k in (1, 2):
        for p in itertools.permutations(pool, k):
            out.append(list(p))
    return out


def replay(case):
    first = case.get("first")
    if first is not None:
        first = (first[0], first[1])
    return check(case["sasl"], case["authmech"], case["login"], case["password"], case["authz"], case["verdict"], case.get("refuse", False),
                 case.get("realm", "example.org"), case.get("nonce", "OA6MG9tEQGm2hh"), first=first)[0]


def main(tier, seed, t0):
    quick = tier == "quick"
    n = 16
    col = core.run_shards(worker, [(k, n, seed * 1000 + 1600 + k, 6 if quick else 60) for k in range(n)])
    need = ["mech:" + m for m in IMPL] + ["mech:None", "sasl:missing", "sasl:empty", "authz:nonempty", "verdict:True", "verdict:False",
                                           "selection-exhaustive", "second-connect", "length-sweep"]
    missing = [c for c in need if not col.classes.get(c)]
    if missing:
        raise core.HarnessError("generator classes empty: %s" % missing)
    col.exhaustive = False
    return core.finish(PROP, tier, seed, "exploration", col, RULE, t0, sys.modules[MOD],
                       assumptions=["reference SASL decoders vf/msref/sasl.py (self-tested on the RFC 4616, RFC 7628 and RFC 2831 examples)",
                                    "OAUTHBEARER carries the login in the gs2 authzid field (a=) as the client documents; the separate authz_id argument has no place in that mechanism",
                                    "a missing SASL capability may make connect raise managesieve.Error (a failure) instead of returning False"],
                       extra={"exhaustive_part": "all %d announced lists x %d preferred-mechanism values with fixed credentials" % (len(all_lists()), len(AUTHMECHS))})
