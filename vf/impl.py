"""Adapters around the code under test (sievelib from VERIF_REPO, default /repo)."""

import io
import os
import sys
import traceback

REPO = os.environ.get("VERIF_REPO", "/repo")
if REPO not in sys.path:
    sys.path.insert(0, REPO)

import sievelib  # noqa: E402
from sievelib import parser as sl_parser  # noqa: E402
from sievelib import commands as sl_commands  # noqa: E402

_here = os.path.realpath(os.path.dirname(sievelib.__file__))
if not _here.startswith(os.path.realpath(REPO)):
    sys.stderr.write("HARNESS: sievelib imported from %s, expected under %s\n" % (_here, REPO))
    sys.exit(2)

Parser = sl_parser.Parser


class StepLimit(Exception):
    pass


import time  # noqa: E402

SLOW_S = 0.2  # CPU seconds (plus 0.2 ms per input byte) one parse may take before it is reported as slow
PY_GUARD_S = 3.0  # CPU seconds after which a Python-level loop is interrupted
SLOW_LIMIT = 40  # after that many slow/hung parses (whole run, all workers) parsing stops


class CpuLimit(Exception):
    """The code under test consumed more CPU time than any terminating run
    plausibly needs (process CPU time, so machine load does not matter)."""


import contextlib  # noqa: E402
import signal  # noqa: E402


def _on_vtalrm(signum, frame):
    raise CpuLimit()


@contextlib.contextmanager
def cpu_guard(seconds=3.0):
    """Raise CpuLimit inside the block after `seconds` of process CPU time.
    A hang of the code under test becomes a finite observation instead of a
    check that never returns."""
    try:
        old = signal.signal(signal.SIGVTALRM, _on_vtalrm)
    except ValueError:  # not in the main thread
        yield
        return
    signal.setitimer(signal.ITIMER_VIRTUAL, seconds)
    try:
        yield
    finally:
        signal.setitimer(signal.ITIMER_VIRTUAL, 0)
        signal.signal(signal.SIGVTALRM, old)


def exc_bucket(e):
    """type @ innermost frame inside the repository (file:function)."""
    tb = traceback.extract_tb(e.__traceback__)
    where = "?"
    for fr in tb:
        fn = os.path.realpath(fr.filename)
        if fn.startswith(_here):
            where = "%s:%s" % (os.path.basename(fn), fr.name)
    return "%s@%s" % (type(e).__name__, where)


class Outcome:
    __slots__ = ("verdict", "exc", "exc_msg", "steps", "error", "error_pos", "result", "parser")

    def summary(self):
        return {
            "verdict": self.verdict,
            "exc": self.exc,
            "error": self.error,
            "error_pos": list(self.error_pos) if isinstance(self.error_pos, tuple) else self.error_pos,
            "steps": self.steps,
        }


def _install_counter(p, limit):
    lexer = getattr(p, "lexer", None)
    scan = getattr(lexer, "scan", None)
    if scan is None:
        return None
    box = [0]

    def counting_scan(text, _scan=scan, _box=box, _limit=limit):
        for tok in _scan(text):
            _box[0] += 1
            if _box[0] > _limit:
                raise StepLimit()
            yield tok

    lexer.scan = counting_scan
    return (lexer, scan, box)


def _confirm_slow(src, n):
    """Re-measure a parse that looked CPU-slow: twice more, garbage collector
    off, fresh Parser.  True only if every repetition is slow as well."""
    import gc
    from . import core as _core
    was = gc.isenabled()
    gc.disable()
    try:
        for _ in range(2):
            p = Parser()
            _core.guard_enter(src)
            t = time.process_time()
            try:
                with cpu_guard(PY_GUARD_S):
                    p.parse(src)
            except BaseException:  # noqa: BLE001
                pass
            finally:
                _core.guard_exit()
            if time.process_time() - t <= SLOW_S + 2e-4 * n:
                return False
        return True
    finally:
        if was:
            gc.enable()


def parse_outcome(src, parser=None, step_factor=2, step_const=16):
    """Parse ``src`` (bytes or str) and observe everything C01..C04/C18 need.
    A lexer-step budget of step_factor*len+step_const turns a hang into a
    finite observation (exc == 'StepLimit')."""
    p = parser if parser is not None else Parser()
    if isinstance(src, bytes) and len(src) % 5 == 3:
        # parse() takes text as well as bytes: every fifth length goes in as str
        try:
            src = src.decode("utf-8")
        except UnicodeDecodeError:
            pass
    n = len(src.encode("utf-8", "surrogatepass")) if isinstance(src, str) else len(src)
    from . import core as _core
    if _core.slow_count() >= SLOW_LIMIT:
        # this process has already seen SLOW_LIMIT parses that burnt CPU for
        # seconds: the finding is established, do not crawl through the rest
        o = Outcome()
        o.parser = p
        o.verdict = None
        o.exc = "Skipped"
        o.exc_msg = "not parsed: %d earlier parses in this run were CPU-slow or hung" % _core.slow_count()
        o.error = o.error_pos = o.result = None
        o.steps = -1
        return o
    limit = step_factor * n + step_const
    inst = _install_counter(p, limit)
    o = Outcome()
    o.parser = p
    o.exc = None
    o.exc_msg = None
    o.error = None
    o.error_pos = None
    o.result = None
    _core.guard_enter(src)
    t_cpu = time.process_time()
    try:
        with cpu_guard(PY_GUARD_S):
            o.verdict = p.parse(src)
    except StepLimit:
        o.verdict = None
        o.exc = "StepLimit"
    except CpuLimit:
        o.verdict = None
        o.exc = "CpuLimit"
    except RecursionError as e:
        o.verdict = None
        o.exc = "RecursionError"
        o.exc_msg = str(e)[:100]
    except Exception as e:  # noqa: BLE001 -- the observation is the point
        o.verdict = None
        o.exc = exc_bucket(e)
        o.exc_msg = repr(e)[:200]
    finally:
        _core.guard_exit()
        if inst:
            inst[0].scan = inst[1]
    dt = time.process_time() - t_cpu
    if o.exc in ("CpuLimit", "StepLimit"):
        _core.slow_incr()
    elif dt > SLOW_S + 2e-4 * n and _confirm_slow(src, n):
        # CPU time (not wall time) of one parse: thousands of times what a
        # terminating linear-time parse of this size needs - and reproducibly so
        # (a single slow measurement can be a garbage collection or a page fault
        # storm after fork; a slow input is slow every time)
        o.exc = "CpuSlow"
        o.exc_msg = "%.1f s of CPU for %d bytes" % (dt, n)
        o.verdict = None
        _core.slow_incr()
    o.steps = inst[2][0] if inst else -1
    if o.verdict is False:
        o.error = getattr(p, "error", None)
        o.error_pos = getattr(p, "error_pos", None)
    if o.verdict is True:
        o.result = getattr(p, "result", None)
    return o


# ---------------------------------------------------------------------------
# own tree walker (DESIGN 2.1): node = (name, args, tests, children)


def _b(x):
    return x.encode("utf-8") if isinstance(x, str) else x


def _argval(v):
    if isinstance(v, (list, tuple)):
        return ("list", tuple(_b(x) for x in v))
    v = _b(v) if isinstance(v, (str, bytes)) else str(v).encode()
    if v[:1] == b":":
        return ("tag", v.lower())
    if v[:1] == b'"' or v[:5].lower() == b"text:":
        return ("str", v)
    return ("num", v)


def tree_of(cmd, as_test=False, grouped=False):
    """grouped=False: args is the flat source-order sequence (tag, its
    parameter, positional values ...).  grouped=True: args is
    (sorted tuple of (tag, parameter-or-None), tuple of positional values) -
    tagged arguments are an unordered set, as they are for the language."""
    args = []
    groups = []
    tests = []
    Command = sl_commands.Command
    for k, v in cmd.arguments.items():
        if isinstance(v, Command):
            tests.append(tree_of(v, True, grouped))
        elif isinstance(v, list) and v and all(isinstance(x, Command) for x in v):
            tests.extend(tree_of(x, True, grouped) for x in v)
        else:
            av = _argval(v)
            if grouped and av[0] == "tag":
                groups.append((av[1], _argval(cmd.extra_arguments[k]) if k in cmd.extra_arguments else None))
                continue
            args.append(av)
        if k in cmd.extra_arguments:
            args.append(_argval(cmd.extra_arguments[k]))
    if as_test:
        children = None
    elif getattr(cmd, "accept_children", False):
        children = tuple(tree_of(c, False, grouped) for c in cmd.children)
    else:
        children = None
    if grouped:
        args = (tuple(sorted(groups, key=repr)), tuple(args))
    else:
        args = tuple(args)
    return (_b(cmd.name).lower(), args, tuple(tests), children)


def forest_of(result, grouped=False):
    return [tree_of(c, False, grouped) for c in result]


def _nv(av):
    if av is None:
        return None
    kind, v = av
    if kind == "str" and v[:1] != b'"':
        v = v.rstrip(b"\r")
    elif kind == "list":
        v = tuple(x.rstrip(b"\r") if x[:1] != b'"' else x for x in v)
    return (kind, v)


def norm_tree(node, grouped=False):
    """Normalise a node for comparison: multi-line raw values lose a trailing
    CR (line-ending style of the final '.' line)."""
    name, args, tests, children = node
    if grouped:
        nargs = (tuple((t, _nv(p)) for t, p in args[0]), tuple(_nv(a) for a in args[1]))
    else:
        nargs = tuple(_nv(a) for a in args)
    return (name, nargs, tuple(norm_tree(t, grouped) for t in tests),
            None if children is None else tuple(norm_tree(c, grouped) for c in children))


def render(result):
    """tosieve of every top-level command, concatenated."""
    out = io.StringIO()
    for c in result:
        c.tosieve(target=out)
    return out.getvalue()


def tree_json(node):
    name, args, tests, children = node
    return {
        "name": name.decode("latin-1"),
        "args": [[k, (v.decode("utf-8", "replace") if isinstance(v, bytes) else [x.decode("utf-8", "replace") for x in v])] for k, v in args],
        "tests": [tree_json(t) for t in tests],
        "children": None if children is None else [tree_json(c) for c in children],
    }
