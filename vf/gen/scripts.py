"""Grammar-directed generator of valid scripts, value generator, layouts and
token-level mutators (DESIGN 2.3).  Everything random comes from Hypothesis."""

from hypothesis import strategies as st

from ..refsieve import TABLE
from . import tokens as T

# ---------------------------------------------------------------------------
# values

HOSTILE = ['"', "\\", "[", "]", ",", "(", ")", "{", "}", ";", "#", "/*", "*/", "$", ":",
           " ", "\n", "\r\n", "text:", "\n.\n", ".", "é", "€", "😀", "a", "b", "Z", "0", "@", "'", "\t"]


def value_text(hostile=True, max_size=6):
    if hostile:
        return st.lists(st.sampled_from(HOSTILE), min_size=0, max_size=max_size).map("".join)
    return st.text(alphabet="abcXYZ019 .-_@", min_size=0, max_size=max_size)


def quote(s):
    """Quoted-string token (bytes) for text s."""
    b = s.encode("utf-8") if isinstance(s, str) else s
    return b'"' + b.replace(b"\\", b"\\\\").replace(b'"', b'\\"') + b'"'


def multiline(s, eol=b"\n", comment=False, inner=None):
    """Multi-line token for text s (content is s split in lines; dot-stuffed).
    The token includes the line break after the final '.'.  inner: line break
    used inside the block (default: eol); the implementation's token pattern
    also takes bare CR and repeated breaks there."""
    b = s.encode("utf-8") if isinstance(s, str) else s
    b = b.replace(b"\r\n", b"\n").replace(b"\r", b"")
    lines = b.split(b"\n") if b else []
    out = [b"text:" + (b" # c" if comment else b"")]
    for ln in lines:
        if ln.startswith(b"."):
            ln = b"." + ln
        out.append(ln)
    out.append(b".")
    return (inner or eol).join(out) + eol


@st.composite
def string_token(draw, hostile=True, allow_mls=True):
    s = draw(value_text(hostile))
    if allow_mls and draw(st.integers(0, 5)) == 0:
        eol = draw(st.sampled_from([b"\n", b"\r\n"]))
        inner = draw(st.sampled_from([None, None, None, None, b"\r", b"\n\r", b"\r\r\n", b"\n\n"]))
        return multiline(s, eol, draw(st.booleans()), inner)
    return quote(s)


def case_variant(draw, tok):
    k = draw(st.integers(0, 7))
    if k == 0:
        return tok.upper()
    if k == 1:
        return tok[:2].upper() + tok[2:]
    return tok


# ---------------------------------------------------------------------------
# commands from the frozen table


class Ctx:
    def __init__(self, table, hostile, maxdepth):
        self.table = table
        self.hostile = hostile
        self.maxdepth = maxdepth
        self.exts = []
        self.commands = [n for n, e in table.items() if e.role == "command"
                         and n not in (b"require", b"elsif", b"else")]
        self.tests = [n for n, e in table.items() if e.role == "test"]

    def use(self, ext):
        if ext and ext not in self.exts:
            self.exts.append(ext)


def _strlist(draw, ctx, force_list=None):
    aslist = draw(st.booleans()) if force_list is None else force_list
    if not aslist:
        return [draw(string_token(ctx.hostile))]
    n = draw(st.integers(1, 3))
    out = [b"["]
    for i in range(n):
        if i:
            out.append(b",")
        out.append(draw(string_token(ctx.hostile)))
    out.append(b"]")
    return out


def _number(draw):
    n = draw(st.sampled_from([b"0", b"1", b"10", b"100", b"4096", b"2147483647"]))
    q = draw(st.sampled_from([b"", b"", b"K", b"M", b"G", b"k", b"m", b"g"]))
    return n + q


def _kind_value(draw, ctx, kinds, values=None):
    if values is not None:
        return [draw(st.sampled_from(list(values)))]
    if "num" in kinds:
        return [_number(draw)]
    if "list" in kinds:
        return _strlist(draw, ctx)
    return [draw(string_token(ctx.hostile))]


def gen_args(draw, ctx, e):
    out = []
    slots = list(e.slots)
    chosen = draw(st.lists(st.sampled_from(slots), unique_by=id, max_size=len(slots))) if slots else []
    for s in chosen:
        if e.name == "vacation" and s.name == "seconds" and any(c.name == "days" for c in chosen):
            continue
        tag = draw(st.sampled_from(sorted(s.tags)))
        ctx.use(s.tags[tag] or s.ext)
        out.append(case_variant(draw, tag))
        if s.param and (s.valid_for is None or tag in s.valid_for):
            out.extend(_kind_value(draw, ctx, s.param, s.values))
    for p in e.pos:
        if p.optional and draw(st.booleans()):
            continue
        if "tag" in p.kinds:
            out.append(case_variant(draw, draw(st.sampled_from(list(p.choices)))))
        else:
            out.extend(_kind_value(draw, ctx, p.kinds))
    return out


def gen_test(draw, ctx, depth):
    names = ctx.tests
    if depth >= ctx.maxdepth:
        names = [n for n in names if ctx.table[n].test is None]
    name = draw(st.sampled_from(names))
    e = ctx.table[name]
    ctx.use(e.ext)
    out = [case_variant(draw, name)] + gen_args(draw, ctx, e)
    if e.test == "one":
        out += gen_test(draw, ctx, depth + 1)
    elif e.test == "list":
        n = draw(st.integers(1, 4 if depth < 2 else 2))
        out.append(b"(")
        for i in range(n):
            if i:
                out.append(b",")
            out += gen_test(draw, ctx, depth + 1)
        out.append(b")")
    return out


def gen_block(draw, ctx, depth):
    out = [b"{"]
    n = draw(st.integers(0, 3 if depth < 2 else 1))
    for _ in range(n):
        out += gen_command(draw, ctx, depth + 1)
    out.append(b"}")
    return out


def gen_command(draw, ctx, depth):
    names = ctx.commands
    if depth >= ctx.maxdepth:
        names = [n for n in names if n != b"if"]
    # bias towards 'if' to get nesting
    name = draw(st.sampled_from(names + [b"if"] * (3 if depth < ctx.maxdepth else 0)))
    e = ctx.table[name]
    ctx.use(e.ext)
    out = [case_variant(draw, name)] + gen_args(draw, ctx, e)
    if name == b"if":
        out += gen_test(draw, ctx, 0) + gen_block(draw, ctx, depth)
        for _ in range(draw(st.integers(0, 2))):
            out += [case_variant(draw, b"elsif")] + gen_test(draw, ctx, 0) + gen_block(draw, ctx, depth)
        if draw(st.booleans()):
            out += [case_variant(draw, b"else")] + gen_block(draw, ctx, depth)
        return out
    if e.test == "one":
        out += gen_test(draw, ctx, 0)
    if e.block:
        out += gen_block(draw, ctx, depth)
    else:
        out.append(b";")
    return out


def gen_requires(draw, exts):
    """require commands naming exts (in one or several commands, string or
    list form)."""
    out = []
    exts = list(exts)
    if not exts:
        return out
    exts = draw(st.permutations(exts))
    i = 0
    while i < len(exts):
        k = draw(st.integers(1, len(exts) - i))
        chunk = exts[i : i + k]
        i += k
        out.append(case_variant(draw, b"require"))
        if len(chunk) == 1 and draw(st.booleans()):
            out.append(quote(chunk[0]))
        else:
            out.append(b"[")
            for j, x in enumerate(chunk):
                if j:
                    out.append(b",")
                out.append(quote(x))
            out.append(b"]")
        out.append(b";")
    return out


@st.composite
def valid_script(draw, table=None, hostile=True, maxdepth=3, maxcmds=4, mincmds=1):
    """Token list of a script that is VALID under the frozen table."""
    ctx = Ctx(table or TABLE, hostile, maxdepth)
    body = []
    for _ in range(draw(st.integers(mincmds, maxcmds))):
        body += gen_command(draw, ctx, 0)
    extra = draw(st.lists(st.sampled_from(T.EXT_STRINGS), max_size=2))
    exts = list(ctx.exts)
    for x in extra:
        x = x[1:-1].decode()
        if x not in exts:
            exts.append(x)
    return gen_requires(draw, exts) + body


# ---------------------------------------------------------------------------
# layouts

SEPS = [b" ", b" ", b"\t", b"\n", b"\r\n", b" # c\n", b" #\xc3\xa9 ; { \" \r\n", b" /* c */ ", b"/* ; \n \" */", b"  ", b"",
        b"/***/", b" /** d **/ ", b"/*/*/", b" /* a*b / * */", b"/*\n*\n**/", b" #*/\n", b"/*#*/"]
_PUNCT = set(T.PUNCT)


def _ok_empty(a, b):
    return (a in _PUNCT or b in _PUNCT) and not a.startswith(b"text:") and not a.endswith(b"\n")


@st.composite
def layout(draw, toks, seps=None):
    """Render a token list with random separators; returns bytes."""
    seps = seps or SEPS
    parts = []
    lead = draw(st.sampled_from([b"", b"", b"\n", b"# lead\n", b"/* x */", b"\r\n \t"]))
    parts.append(lead)
    for i, t in enumerate(toks):
        if i:
            s = draw(st.sampled_from(seps))
            if s == b"" and not _ok_empty(toks[i - 1], t):
                s = b" "
            parts.append(s)
        parts.append(t)
    parts.append(draw(st.sampled_from([b"", b"", b"\n", b"\r\n", b" # end", b" /* end */"])))
    return b"".join(parts)


def canonical(toks):
    return b" ".join(toks)


# ---------------------------------------------------------------------------
# mutators (token level)

UNITS = [
    [b'"s"'], [b"5"], [b"[", b'"a"', b"]"], [b"[", b'"a"', b",", b'"b"', b"]"], [b":is"],
    [b":comparator", b'"i;octet"'], [b"true"], [b"(", b"true", b")"], [b"{", b"}"],
    [b"{", b"keep", b";", b"}"], [b"not", b"true"], [b"keep", b";"], [b"else", b"{", b"}"],
    [b"elsif", b"true", b"{", b"}"], [b";"], [b"stop"], [b"[", b"]"], [b"(", b")"], [b":bogus"],
    [b"foo"], [b"foo", b";"], [b"@"], [b"["], [b"]"], [b"("], [b")"], [b"{"], [b"}"], [b","],
    [b'"u'], [b"/*"], [b"text:"], [b"anyof", b"(", b"true", b")"], [b"exists", b'"x"'],
]

_SWAP = {b"[": b"(", b"]": b")", b"(": b"[", b")": b"]", b"{": b"(", b"}": b")"}


def strip_exts(toks, remove):
    """Remove the extension names in `remove` from every require command of the
    token list (dropping a require whose list becomes empty)."""
    out = []
    i = 0
    n = len(toks)
    while i < n:
        if toks[i].lower() == b"require":
            j = i + 1
            names = []
            while j < n and toks[j] != b";":
                if toks[j][:1] == b'"':
                    names.append(toks[j])
                j += 1
            keep = [x for x in names if x[1:-1].decode("utf-8", "replace") not in remove]
            if keep:
                out.append(toks[i])
                if len(keep) == 1 and len(names) == 1:
                    out.append(keep[0])
                else:
                    out.append(b"[")
                    for k, x in enumerate(keep):
                        if k:
                            out.append(b",")
                        out.append(x)
                    out.append(b"]")
                out.append(b";")
            i = j + 1
            continue
        out.append(toks[i])
        i += 1
    return out


def required_exts(toks):
    out = []
    i = 0
    while i < len(toks):
        if toks[i].lower() == b"require":
            j = i + 1
            while j < len(toks) and toks[j] != b";":
                if toks[j][:1] == b'"':
                    out.append(toks[j][1:-1].decode("utf-8", "replace"))
                j += 1
            i = j
        i += 1
    return out


@st.composite
def mutate(draw, toks, vocab=None):
    """One single-edit mutant of the token list. Returns (kind, tokens)."""
    vocab = vocab or T.FULL
    toks = list(toks)
    n = len(toks)
    kind = draw(st.sampled_from(["delete", "insert", "replace", "swap", "dup", "bracket",
                                 "unit", "unit", "truncate", "retype", "retype", "unrequire"]))
    if n == 0:
        kind = "insert"
    if kind == "delete":
        i = draw(st.integers(0, n - 1))
        del toks[i]
    elif kind == "insert":
        i = draw(st.integers(0, n))
        toks.insert(i, draw(st.sampled_from(vocab)))
    elif kind == "replace":
        i = draw(st.integers(0, n - 1))
        toks[i] = draw(st.sampled_from(vocab))
    elif kind == "swap":
        if n < 2:
            return ("noop", toks)
        i = draw(st.integers(0, n - 2))
        toks[i], toks[i + 1] = toks[i + 1], toks[i]
    elif kind == "dup":
        i = draw(st.integers(0, n - 1))
        toks.insert(i, toks[i])
    elif kind == "bracket":
        idx = [i for i, t in enumerate(toks) if t in _SWAP]
        if not idx:
            return ("noop", toks)
        i = draw(st.sampled_from(idx))
        toks[i] = _SWAP[toks[i]]
    elif kind == "unit":
        i = draw(st.integers(0, n))
        toks[i:i] = draw(st.sampled_from(UNITS))
    elif kind == "unrequire":
        exts = required_exts(toks)
        if not exts:
            return ("noop", toks)
        toks = strip_exts(toks, {draw(st.sampled_from(exts))})
    elif kind == "retype":
        # change the type of one argument: string <-> list <-> number, tag <-> string
        idx = [i for i, t in enumerate(toks) if t[:1] in (b'"', b":") or t[:1].isdigit() or t.startswith(b"text:")]
        if not idx:
            return ("noop", toks)
        i = draw(st.sampled_from(idx))
        t = toks[i]
        if t[:1] == b'"' or t.startswith(b"text:"):
            inlist = i > 0 and toks[i - 1] in (b"[", b",")
            how = draw(st.sampled_from(["wrap", "wrap", "number", "tag"] if not inlist else ["number", "tag", "nested"]))
            if how == "wrap":
                toks[i:i + 1] = [b"[", t, b"]"]
            elif how == "nested":
                toks[i:i + 1] = [b"[", t, b"]"]
            elif how == "number":
                toks[i] = b"7"
            else:
                toks[i] = b":is"
        elif t[:1] == b":":
            toks[i] = draw(st.sampled_from([b'"tag"', b"3", b":contains", b":over", b":copy", b":flags", b":zone"]))
        else:
            toks[i] = draw(st.sampled_from([b'"5"', b"[", b":over"]))
    elif kind == "truncate":
        i = draw(st.integers(0, n - 1))
        toks = toks[:i]
    return (kind, toks)
