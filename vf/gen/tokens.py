"""Token vocabulary and exhaustive enumerations (DESIGN 2.3)."""

from ..refsieve import TABLE, analyze

PUNCT = [b"[", b"]", b"(", b")", b"{", b"}", b";", b","]
MLS = b"text:\nx\n.\n"
STRINGS = [b'"a"']
EXT_STRINGS = [b'"%s"' % e.encode() for e in (
    "fileinto", "reject", "envelope", "body", "vacation", "vacation-seconds", "copy",
    "mailbox", "imap4flags", "relational", "regex", "date", "variables")]
PARAM_STRINGS = [b'"i;octet"', b'"ge"']
NUMBERS = [b"1", b"2K"]
JUNK = [b"@", b'"u']
UNKNOWN_IDENT = b"foo"
UNKNOWN_TAG = b":bogus"

COMMANDS = sorted(TABLE.keys())
TAGS = sorted({tg for e in TABLE.values() for s in e.slots for tg in s.tags} |
              {c for e in TABLE.values() for p in e.pos if p.choices for c in p.choices})

CLASSES = PUNCT + STRINGS + PARAM_STRINGS + NUMBERS + [MLS] + JUNK + [UNKNOWN_IDENT, UNKNOWN_TAG]

FULL = CLASSES + EXT_STRINGS + COMMANDS + TAGS


def _tags_of(names):
    out = set()
    for n in names:
        e = TABLE[n]
        for s in e.slots:
            out |= set(s.tags)
        for p in e.pos:
            if p.choices:
                out |= set(p.choices)
    return sorted(out)


def stratum(cmds, exts):
    cmds = [c.encode() for c in cmds]
    return CLASSES + [b'"%s"' % e.encode() for e in exts] + cmds + _tags_of(cmds)


# three overlapping strata; each contains all token classes
STRATA = {
    "structure": stratum(
        ["require", "if", "elsif", "else", "stop", "keep", "discard", "not", "anyof", "allof",
         "true", "false", "exists", "size", "redirect"], ["copy", "imap4flags"]),
    "actions": stratum(
        ["require", "if", "true", "fileinto", "reject", "vacation", "setflag", "addflag",
         "removeflag", "set", "keep", "redirect"],
        ["fileinto", "reject", "vacation", "vacation-seconds", "copy", "mailbox", "imap4flags",
         "variables"]),
    "tests": stratum(
        ["require", "if", "header", "address", "envelope", "body", "hasflag", "date",
         "currentdate", "anyof", "not"],
        ["envelope", "body", "imap4flags", "relational", "regex", "date"]),
}


def join(seq):
    return b" ".join(seq)


def blind(vocab, maxlen, first=None):
    """All sequences over vocab of length 1..maxlen (optionally with a fixed
    first token index, for sharding)."""
    def rec(prefix, depth):
        yield prefix
        if depth == maxlen:
            return
        for t in vocab:
            yield from rec(prefix + [t], depth + 1)
    if first is None:
        for t in vocab:
            yield from rec([t], 1)
    else:
        yield from rec([vocab[first]], 1)


def guided(vocab, maxlen, first=None, table=None):
    """Every sequence 'viable prefix + one token' of length <= maxlen.
    Yields (seq, analysis_result)."""
    def rec(prefix, depth):
        for t in vocab:
            seq = prefix + [t]
            r = analyze(join(seq), table=table)
            yield seq, r
            if depth + 1 < maxlen and (r.bad is None or r.bad >= r.ntok):
                yield from rec(seq, depth + 1)
    if first is None:
        yield from rec([], 0)
    else:
        seq = [vocab[first]]
        r = analyze(join(seq), table=table)
        yield seq, r
        if maxlen > 1 and (r.bad is None or r.bad >= r.ntok):
            yield from rec(seq, 1)
