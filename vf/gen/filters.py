"""Generators of FiltersSet definitions (DESIGN 2.4): conditions and actions in
the forms documented by sievelib's factory module and test suite."""

from hypothesis import strategies as st

HOSTILE = ['"', "\\", ",", "[", "]", "(", ")", "{", "}", ";", "#", " ", "\n", "\r\n", "é", "€", "😀", "a", "b", "Z", "0",
           "@", ".", "-", ":", "$", "*", "?", "/*", "text:", "'", "text:\nx\n.", "\n.",
           "e\u0301", "\u212b", "\u1100\u1161"]
MILD = [",", " ", "[", "]", "é", "€", "a", "b", "Z", "0", "@", ".", "-", "(", ")", "😀", ";", "{", "}", "e\u0301", "\u212b"]
BENIGN = ["a", "b", "c", "X", "Y", "0", "1", "-", "_", ".", "@"]

SPECIAL = ("true", "false", "size", "exists", "envelope", "address", "body", "currentdate")


def text_from(alphabet, min_size=0, max_size=6):
    return st.lists(st.sampled_from(alphabet), min_size=min_size, max_size=max_size).map("".join)


def value(alphabet, min_size=0):
    """A user value: never starts with a quote character (documented exclusion:
    such a value is taken as already quoted) nor with ':' (the factory API
    reads a leading colon as a tag)."""
    return text_from(alphabet, min_size).filter(lambda s: not s.startswith(('"', "'", ":")))


# In a condition every position has a fixed role, so a value there may be spelled
# like a tag (in an action a leading colon makes it one: excluded above).
TAGLIKE = [":is", ":contains", ":matches", ":notis", ":over", ":under", ":count", ":value", ":regex", ":copy", ":text", ":zone", ":", ":all"]


def cvalue(alphabet, min_size=0):
    """A value for a condition slot."""
    return st.one_of(*([value(alphabet, min_size)] * 7 + [st.sampled_from(TAGLIKE)]))


def header_name(alphabet):
    return value(alphabet, 1).filter(lambda s: not s.startswith("not") and s not in SPECIAL)


def str_or_list(elem, maxlen=3):
    return st.one_of(elem, st.lists(elem, min_size=1, max_size=maxlen))


MATCH = [":is", ":contains", ":matches"]
MATCH_NOT = MATCH + [":notis", ":notcontains", ":notmatches"]


@st.composite
def condition(draw, alphabet, kinds=None, lists_ok=True):
    kinds = kinds or ["header", "header", "exists", "size", "envelope", "address", "body", "currentdate", "truefalse"]
    k = draw(st.sampled_from(kinds))
    v = cvalue(alphabet)
    if k == "header":
        name = draw(str_or_list(header_name(alphabet)) if lists_ok else header_name(alphabet))
        val = draw(str_or_list(v) if lists_ok else v)
        return (name, draw(st.sampled_from(MATCH_NOT)), val)
    if k == "exists":
        names = draw(st.lists(value(alphabet, 1), min_size=1, max_size=4))
        return (draw(st.sampled_from(["exists", "notexists"])),) + tuple(names)
    if k == "size":
        n = draw(st.sampled_from(["0", "1", "100", "4096"])) + draw(st.sampled_from(["", "k", "K", "M", "G"]))
        return ("size", draw(st.sampled_from([":over", ":under"])), n)
    if k == "envelope":
        return ("envelope", draw(st.sampled_from(MATCH_NOT)),
                draw(st.lists(st.sampled_from(["from", "to", "From", "To"]) if alphabet is BENIGN else value(alphabet, 1), min_size=1, max_size=2)),
                draw(st.lists(v, min_size=1, max_size=3)))
    if k == "address":
        return ("address", draw(st.sampled_from(MATCH_NOT)), draw(str_or_list(value(alphabet, 1))), draw(str_or_list(v)))
    if k == "body":
        return ("body", draw(st.sampled_from([":raw", ":text"])), draw(st.sampled_from(MATCH_NOT))) + \
            tuple(draw(st.lists(v, min_size=1, max_size=3)))
    if k == "currentdate":
        zone = draw(st.sampled_from(["+0100", "-0330", "+0000"]))
        part = draw(st.sampled_from(["date", "time", "year", "hour", "weekday"]))
        vals = tuple(draw(st.lists(v, min_size=1, max_size=2)))
        if draw(st.booleans()):
            rel = draw(st.sampled_from(["gt", "ge", "lt", "le", "eq", "ne"]))
            mt = draw(st.sampled_from([":value", ":notvalue"]))
            return ("currentdate", ":zone", zone, mt, rel, part) + vals
        return ("currentdate", ":zone", zone, draw(st.sampled_from(MATCH_NOT)), part) + vals
    return (draw(st.sampled_from(["true", "false"])),)


@st.composite
def action(draw, alphabet, kinds=None, lists_ok=True, tags_with_values=True):
    kinds = kinds or ["fileinto", "fileinto", "redirect", "reject", "keep", "discard", "stop", "flags", "vacation"]
    k = draw(st.sampled_from(kinds))
    v = value(alphabet)
    if k == "fileinto":
        a = ["fileinto"]
        if draw(st.booleans()):
            a.append(":copy")
        if draw(st.booleans()):
            a.append(":create")
        if tags_with_values and draw(st.booleans()):
            a += [":flags", draw(str_or_list(v) if lists_ok else v)]
        a.append(draw(v))
        return tuple(a)
    if k == "redirect":
        a = ["redirect"]
        if draw(st.booleans()):
            a.append(":copy")
        a.append(draw(v))
        return tuple(a)
    if k == "reject":
        return ("reject", draw(v))
    if k == "keep":
        if tags_with_values and draw(st.integers(0, 3)) == 0:
            return ("keep", ":flags", draw(str_or_list(v) if lists_ok else v))
        return ("keep",)
    if k == "discard":
        return ("discard",)
    if k == "stop":
        return ("stop",)
    if k == "flags":
        return (draw(st.sampled_from(["setflag", "addflag", "removeflag"])), draw(str_or_list(v) if lists_ok else v))
    # vacation
    a = ["vacation"]
    tags = draw(st.lists(st.sampled_from([":subject", ":days", ":seconds", ":from", ":addresses", ":handle", ":mime"]),
                         unique=True, max_size=5)) if tags_with_values else draw(st.lists(st.sampled_from([":mime"]), max_size=1))
    if ":days" in tags and ":seconds" in tags:
        tags.remove(":seconds")
    for t in tags:
        a.append(t)
        if t in (":subject", ":from", ":handle"):
            a.append(draw(v))
        elif t in (":days", ":seconds"):
            a.append(draw(st.integers(0, 400)))
        elif t == ":addresses":
            a.append(draw(str_or_list(v) if lists_ok else v))
    a.append(draw(v))
    return tuple(a)


@st.composite
def definition(draw, alphabet, cond_kinds=None, act_kinds=None, lists_ok=True, tags_with_values=True, min_actions=0):
    conds = draw(st.lists(condition(alphabet, cond_kinds, lists_ok), min_size=1, max_size=4))
    if draw(st.integers(0, 6)) == 0:
        # the same condition twice (the last one equal to an earlier one)
        conds = conds + [conds[draw(st.integers(0, len(conds) - 1))]]
    acts = draw(st.lists(action(alphabet, act_kinds, lists_ok, tags_with_values), min_size=min_actions, max_size=3))
    mt = draw(st.sampled_from(["anyof", "allof"]))
    return {"conditions": conds, "actions": acts, "matchtype": mt}


def user_values(defn):
    """All user-supplied string values of a definition (for placeholder
    substitution and the string-literal multiset): list of str."""
    out = []
    for c in defn["conditions"]:
        head = c[0]
        if isinstance(head, list) or head not in ("true", "false", "size", "exists", "notexists", "envelope", "address", "body", "currentdate"):
            for part in (c[0], c[2]):
                out += part if isinstance(part, list) else [part]
        elif head in ("exists", "notexists"):
            out += list(c[1:])
        elif head in ("envelope", "address"):
            for part in c[2:]:
                out += part if isinstance(part, list) else [part]
        elif head == "body":
            out += list(c[3:])
        elif head == "currentdate":
            out.append(c[2])  # zone
            i = 4
            if c[3] in (":value", ":notvalue"):
                out.append(c[4])
                i = 5
            out += list(c[i:])
    for a in defn["actions"]:
        for arg in a[1:]:
            if isinstance(arg, list):
                out += arg
            elif isinstance(arg, str) and not arg.startswith(":"):
                out.append(arg)
    return out


def substitute(defn, f):
    """Same definition with every *user string value* replaced by f(value);
    fixed protocol strings (zone, relation, date-part, size) stay."""
    def sv(x):
        if isinstance(x, list):
            return [f(y) for y in x]
        return f(x)

    conds = []
    for c in defn["conditions"]:
        head = c[0]
        if isinstance(head, list) or head not in ("true", "false", "size", "exists", "notexists", "envelope", "address", "body", "currentdate"):
            conds.append((sv(c[0]), c[1], sv(c[2])))
        elif head in ("exists", "notexists"):
            conds.append((head,) + tuple(f(x) for x in c[1:]))
        elif head in ("envelope", "address"):
            conds.append((head, c[1]) + tuple(sv(x) for x in c[2:]))
        elif head == "body":
            conds.append(c[:3] + tuple(f(x) for x in c[3:]))
        elif head == "currentdate":
            i = 6 if c[3] in (":value", ":notvalue") else 5
            conds.append(c[:i] + tuple(f(x) for x in c[i:]))
        else:
            conds.append(c)
    acts = []
    for a in defn["actions"]:
        na = [a[0]]
        for arg in a[1:]:
            if isinstance(arg, list):
                na.append([f(x) for x in arg])
            elif isinstance(arg, str) and not arg.startswith(":"):
                na.append(f(arg))
            else:
                na.append(arg)
        acts.append(tuple(na))
    return {"conditions": conds, "actions": acts, "matchtype": defn["matchtype"]}
