"""Self-tests of the oracles (run by setup.sh; each check re-runs the ones it depends on)."""
import sys


def main():
    from vf.props import c01
    c01.selftest()
    try:
        from vf.msref import selftest as ms
        ms.main()
    except ImportError:
        pass
    print("selftest ok")
    return 0


if __name__ == "__main__":
    sys.exit(main())
