"""Reference SASL servers (decoders) for PLAIN (RFC 4616), LOGIN,
OAUTHBEARER (RFC 7628, saslname escaping of RFC 5801) and DIGEST-MD5
(RFC 2831), plus tiny reference clients used by the self-test."""

import base64
import binascii
import hashlib
import re


class SaslError(Exception):
    pass


def b64d(data):
    try:
        return base64.b64decode(data, validate=True)
    except (binascii.Error, ValueError):
        raise SaslError("not valid base64: %r" % data[:40])


# --- PLAIN ------------------------------------------------------------------

def plain_decode(message):
    """message (decoded from base64) -> dict(authzid, login, password) as str"""
    parts = message.split(b"\x00")
    if len(parts) != 3:
        raise SaslError("PLAIN message must have exactly two NUL separators (got %d parts)" % len(parts))
    try:
        authz, login, pw = (p.decode("utf-8") for p in parts)
    except UnicodeDecodeError:
        raise SaslError("PLAIN message is not UTF-8")
    if not login:
        raise SaslError("PLAIN empty authcid")
    return {"authzid": authz, "login": login, "password": pw}


def plain_encode(login, password, authzid=""):
    return b"\x00".join(x.encode("utf-8") for x in (authzid, login, password))


# --- OAUTHBEARER ------------------------------------------------------------

def saslname_unescape(b):
    out = bytearray()
    i = 0
    while i < len(b):
        if b[i] == 61:  # '='
            code = b[i + 1 : i + 3]
            if code == b"2C":
                out.append(44)
            elif code == b"3D":
                out.append(61)
            else:
                raise SaslError("bad saslname escape")
            i += 3
        elif b[i] == 44:
            raise SaslError("unescaped ',' in saslname")
        else:
            out.append(b[i])
            i += 1
    return bytes(out)


def saslname_escape(s):
    return s.replace("=", "=3D").replace(",", "=2C")


def oauthbearer_decode(message):
    """-> dict(user, token, kv)"""
    m = re.match(rb"^n,(?:a=([^,]*))?,\x01", message, re.S)
    if not m:
        raise SaslError("malformed gs2 header: %r" % message[:60])
    user = saslname_unescape(m.group(1)) if m.group(1) is not None else b""
    rest = message[m.end():]
    if not rest.endswith(b"\x01"):
        raise SaslError("message must end with kvsep kvsep")
    body = rest[:-1]
    kv = {}
    if body:
        if not body.endswith(b"\x01"):
            raise SaslError("kvpair not terminated")
        for pair in body[:-1].split(b"\x01"):
            if b"=" not in pair:
                raise SaslError("kvpair without '='")
            k, v = pair.split(b"=", 1)
            if not re.fullmatch(rb"[A-Za-z]+", k):
                raise SaslError("bad key")
            kv[k.decode()] = v
    auth = kv.get("auth")
    if auth is None or not auth.startswith(b"Bearer "):
        raise SaslError("no Bearer token")
    token = auth[len(b"Bearer "):]
    try:
        return {"user": user.decode("utf-8"), "token": token.decode("utf-8")}
    except UnicodeDecodeError:
        raise SaslError("not UTF-8")


def oauthbearer_encode(user, token):
    return ("n,a=%s,\x01auth=Bearer %s\x01\x01" % (saslname_escape(user), token)).encode("utf-8")


# --- DIGEST-MD5 -------------------------------------------------------------

def _H(b):
    return hashlib.md5(b).digest()


def _HEX(b):
    return binascii.hexlify(b)


def digest_challenge(realm, nonce):
    parts = []
    if realm is not None:
        parts.append('realm="%s"' % realm)
    parts += ['nonce="%s"' % nonce, 'qop="auth"', "algorithm=md5-sess", "charset=utf-8"]
    return ",".join(parts).encode("utf-8")


def parse_directives(data):
    """RFC 2831 7.1 directive list -> dict (values unquoted, bytes)"""
    out = {}
    i = 0
    n = len(data)
    while i < n:
        while i < n and data[i] in b", \t\r\n":
            i += 1
        if i >= n:
            break
        j = i
        while j < n and data[j] not in b"=":
            j += 1
        if j >= n:
            raise SaslError("directive without '='")
        key = data[i:j].strip().decode("ascii", "replace").lower()
        j += 1
        if j < n and data[j] == 34:
            j += 1
            val = bytearray()
            while True:
                if j >= n:
                    raise SaslError("unterminated quoted value")
                if data[j] == 92 and j + 1 < n:
                    val.append(data[j + 1])
                    j += 2
                    continue
                if data[j] == 34:
                    j += 1
                    break
                val.append(data[j])
                j += 1
            val = bytes(val)
        else:
            k = j
            while k < n and data[k] != 44:
                k += 1
            val = data[j:k].strip()
            j = k
        if key in out:
            raise SaslError("directive %s repeated" % key)
        out[key] = val
        i = j
    return out


def digest_compute(username, realm, password, nonce, cnonce, nc, qop, digest_uri, authzid=None, a2prefix=b"AUTHENTICATE"):
    a1 = _H(username + b":" + realm + b":" + password) + b":" + nonce + b":" + cnonce
    if authzid:
        a1 += b":" + authzid
    a2 = a2prefix + b":" + digest_uri
    return _HEX(_H(_HEX(_H(a1)) + b":" + nonce + b":" + nc + b":" + cnonce + b":" + qop + b":" + _HEX(_H(a2))))


def digest_verify(message, realm, nonce, password, host):
    """Check a digest-response. -> dict(login, authzid, rspauth) or raises."""
    d = parse_directives(message)
    for need in ("username", "nonce", "cnonce", "nc", "digest-uri", "response"):
        if need not in d:
            raise SaslError("directive %s missing" % need)
    if d["nonce"] != nonce.encode():
        raise SaslError("nonce differs from the one issued")
    if (realm or "").encode() != d.get("realm", b""):
        raise SaslError("realm differs from the one issued")
    if d["nc"] != b"00000001":
        raise SaslError("nc must be 00000001")
    qop = d.get("qop", b"auth")
    if qop != b"auth":
        raise SaslError("qop not offered")
    if d["digest-uri"].lower() != ("sieve/%s" % host).encode():
        raise SaslError("digest-uri %r" % d["digest-uri"])
    authzid = d.get("authzid")
    exp = digest_compute(d["username"], d.get("realm", b""), password.encode("utf-8"), d["nonce"], d["cnonce"], d["nc"], qop,
                         d["digest-uri"], authzid)
    if d["response"].lower() != exp:
        raise SaslError("response value wrong (password/username/realm mismatch)")
    rsp = digest_compute(d["username"], d.get("realm", b""), password.encode("utf-8"), d["nonce"], d["cnonce"], d["nc"], qop,
                         d["digest-uri"], authzid, a2prefix=b"")
    try:
        return {"login": d["username"].decode("utf-8"), "authzid": (authzid or b"").decode("utf-8"), "rspauth": b"rspauth=" + rsp}
    except UnicodeDecodeError:
        raise SaslError("not UTF-8")


def digest_client(challenge, username, password, host, cnonce=b"OA6MHXh6VqTrRk", authzid=None):
    """Tiny reference client (self-test only)."""
    d = parse_directives(challenge)
    realm = d.get("realm", b"")
    u = username.encode("utf-8")
    uri = ("sieve/%s" % host).encode()
    resp = digest_compute(u, realm, password.encode("utf-8"), d["nonce"], cnonce, b"00000001", b"auth", uri,
                          authzid.encode() if authzid else None)
    out = b'username="' + u.replace(b"\\", b"\\\\").replace(b'"', b'\\"') + b'"'
    if realm:
        out += b',realm="' + realm + b'"'
    out += b',nonce="' + d["nonce"] + b'",cnonce="' + cnonce + b'",nc=00000001,qop=auth,digest-uri="' + uri + b'",response=' + resp
    if authzid:
        out += b',authzid="' + authzid.encode() + b'"'
    return out
