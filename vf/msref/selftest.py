"""Self-tests of the ManageSieve reference side (exit 2 via HarnessError)."""
import base64

from . import wire, sasl


def main():
    from ..core import HarnessError
    # strict parser: RFC 5804 examples
    c = wire.parse_command(b'PUTSCRIPT "foo" {31+}\r\n#comment\r\nInvalidSieveCommand\r\n\r\n')
    assert c.verb == b"PUTSCRIPT" and c.args == [b"foo", b"#comment\r\nInvalidSieveCommand\r\n"], c
    c = wire.parse_command(b'HAVESPACE "myscript" 999999\r\n')
    assert c.args == [b"myscript", 999999]
    c = wire.parse_command(b'Authenticate "PLAIN" "QJIrweAPyo6Q1T9xu"\r\n')
    assert c.verb == b"AUTHENTICATE"
    for bad in (b'GETSCRIPT "a"b"\r\n', b'GETSCRIPT a\r\n', b'GETSCRIPT "a\r\n"\r\n', b'GETSCRIPT "a" "b"\r\n', b'FOO\r\n',
                b'GETSCRIPT {3}\r\nabc\r\n', b'GETSCRIPT  "a"\r\n', b'HAVESPACE "a" "1"\r\n', b'GETSCRIPT "\\x"\r\n'):
        try:
            wire.parse_command(bad)
        except wire.Violation:
            continue
        except wire.NeedMore:
            if bad.startswith(b'GETSCRIPT "a\r\n"'):
                continue
        raise HarnessError("strict parser accepted %r" % bad)
    # encoder / strict parser round trip on strings
    for s in (b"", b"a", b'q"\\', b"\xc3\xa9", b"line\r\nline", b"\x00", b"{3}"):
        for form in wire.forms_for(s):
            enc = wire.enc_string(s, form)
            if form == "quoted":
                val, f, i = wire.parse_string(enc, 0)
                assert val == s and i == len(enc)
    # SASL: RFC 4616 example, RFC 7628 example, RFC 2831 example
    r = sasl.plain_decode(b"\x00tim\x00tanstaaftanstaaf")
    assert r == {"authzid": "", "login": "tim", "password": "tanstaaftanstaaf"}
    r = sasl.oauthbearer_decode(b"n,a=user@example.com,\x01host=server.example.com\x01port=143\x01auth=Bearer vF9dft4qmTc2Nvb3RlckBhbHRhdmlzdGEuY29tCg==\x01\x01")
    assert r == {"user": "user@example.com", "token": "vF9dft4qmTc2Nvb3RlckBhbHRhdmlzdGEuY29tCg=="}, r
    assert sasl.oauthbearer_decode(sasl.oauthbearer_encode("a,b=c", "tok"))["user"] == "a,b=c"
    # RFC 2831 section 4 example (imap/elwood.innosoft.com) checks the arithmetic
    resp = sasl.digest_compute(b"chris", b"elwood.innosoft.com", b"secret", b"OA6MG9tEQGm2hh", b"OA6MHXh6VqTrRk", b"00000001", b"auth",
                               b"imap/elwood.innosoft.com")
    if resp != b"d388dad90d4bbd760a152321f2143af7":
        raise HarnessError("DIGEST-MD5 reference arithmetic wrong: %r" % resp)
    rsp = sasl.digest_compute(b"chris", b"elwood.innosoft.com", b"secret", b"OA6MG9tEQGm2hh", b"OA6MHXh6VqTrRk", b"00000001", b"auth",
                              b"imap/elwood.innosoft.com", a2prefix=b"")
    if rsp != b"ea40f60335c427b5527b84dbabcdfffd":
        raise HarnessError("DIGEST-MD5 rspauth arithmetic wrong: %r" % rsp)
    ch = sasl.digest_challenge("example.org", "abc")
    msg = sasl.digest_client(ch, 'us"er\xe9', "p\xe4ss", "server.example.org")
    rec = sasl.digest_verify(msg, "example.org", "abc", "p\xe4ss", "server.example.org")
    assert rec["login"] == 'us"er\xe9'
    return 0
