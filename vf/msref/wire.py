"""RFC 5804 wire format: strict client-command parser (server side) and reply
encoder.  Written from the RFC's ABNF (section 4); shares nothing with
sievelib."""

CRLF = b"\r\n"

VERBS = {
    # verb: list of argument kinds ('str' / 'num'), optional ones marked with '?'
    b"AUTHENTICATE": ["str", "str?"],
    b"STARTTLS": [],
    b"LOGOUT": [],
    b"CAPABILITY": [],
    b"HAVESPACE": ["str", "num"],
    b"PUTSCRIPT": ["str", "str"],
    b"LISTSCRIPTS": [],
    b"SETACTIVE": ["str"],
    b"GETSCRIPT": ["str"],
    b"DELETESCRIPT": ["str"],
    b"RENAMESCRIPT": ["str", "str"],
    b"CHECKSCRIPT": ["str"],
    b"NOOP": ["str?"],
    b"UNAUTHENTICATE": [],
}

SCRIPT_VERBS = (b"HAVESPACE", b"LISTSCRIPTS", b"GETSCRIPT", b"PUTSCRIPT", b"CHECKSCRIPT", b"DELETESCRIPT",
                b"RENAMESCRIPT", b"SETACTIVE")


class Cmd:
    __slots__ = ("verb", "args", "forms", "raw")

    def __init__(self, verb, args, forms, raw):
        self.verb = verb  # upper-cased bytes
        self.args = args  # list of bytes (strings) / int (numbers)
        self.forms = forms  # 'quoted' / 'literal' / 'num'
        self.raw = raw

    def __repr__(self):
        return "Cmd(%r, %r)" % (self.verb, self.args)


class NeedMore(Exception):
    pass


class Violation(Exception):
    def __init__(self, reason, consumed=None):
        Exception.__init__(self, reason)
        self.reason = reason
        self.consumed = consumed


def _valid_utf8(b):
    try:
        b.decode("utf-8")
        return True
    except UnicodeDecodeError:
        return False


def parse_string(buf, i):
    """Parse one string (quoted or literal-c2s) at buf[i:]. -> (value, form, next)"""
    n = len(buf)
    if i >= n:
        raise NeedMore()
    c = buf[i]
    if c == 34:
        j = i + 1
        out = bytearray()
        while True:
            if j >= n:
                # an unterminated quoted string cannot continue past CRLF
                raise NeedMore()
            d = buf[j]
            if d == 34:
                break
            if d == 92:
                if j + 1 >= n:
                    raise NeedMore()
                e = buf[j + 1]
                if e not in (34, 92):
                    raise Violation("bad escape in quoted string")
                out.append(e)
                j += 2
                continue
            if d in (0, 10, 13):
                raise Violation("CR, LF or NUL inside quoted string")
            out.append(d)
            j += 1
        val = bytes(out)
        if not _valid_utf8(val):
            raise Violation("quoted string is not UTF-8")
        if len(val) > 1024 * 1024:
            raise Violation("quoted string too long")
        return val, "quoted", j + 1
    if c == 123:
        j = buf.find(b"}", i)
        if j < 0:
            if n - i > 24:
                raise Violation("malformed literal header")
            raise NeedMore()
        hdr = buf[i + 1 : j]
        plus = hdr.endswith(b"+")
        num = hdr[:-1] if plus else hdr
        if not num or not num.isdigit():
            raise Violation("malformed literal header")
        if not plus:
            raise Violation("synchronising literal sent by client without waiting")
        if n < j + 3:
            raise NeedMore()
        if buf[j + 1 : j + 3] != CRLF:
            raise Violation("literal header not followed by CRLF")
        size = int(num)
        start = j + 3
        if n < start + size:
            raise NeedMore()
        return bytes(buf[start : start + size]), "literal", start + size
    raise Violation("string expected")


def parse_command(buf):
    """Strict parse of one client command at the start of buf.
    -> Cmd (with .raw = bytes consumed).  Raises NeedMore / Violation."""
    buf = bytes(buf)
    n = len(buf)
    i = 0
    while i < n and (65 <= buf[i] <= 90 or 97 <= buf[i] <= 122):
        i += 1
    if i == n:
        if n > 32:
            raise Violation("no verb")
        raise NeedMore()
    if i == 0:
        raise Violation("command does not start with a verb")
    verb = buf[:i].upper()
    if verb not in VERBS:
        raise Violation("unknown verb %r" % verb)
    spec = VERBS[verb]
    args, forms = [], []
    k = 0
    while True:
        if i >= n:
            raise NeedMore()
        if buf[i : i + 2] == CRLF:
            i += 2
            break
        if buf[i] == 13 and i + 1 >= n:
            raise NeedMore()
        if buf[i] != 32:
            raise Violation("SP or CRLF expected after %s" % ("verb" if not args else "argument"))
        i += 1
        if k >= len(spec):
            raise Violation("too many arguments for %s" % verb.decode())
        kind = spec[k].rstrip("?")
        if kind == "num":
            j = i
            while j < n and 48 <= buf[j] <= 57:
                j += 1
            if j == n:
                raise NeedMore()
            if j == i:
                raise Violation("number expected")
            args.append(int(buf[i:j]))
            forms.append("num")
            i = j
        else:
            val, form, i = parse_string(buf, i)
            args.append(val)
            forms.append(form)
        k += 1
    required = len([s for s in spec if not s.endswith("?")])
    if k < required:
        raise Violation("missing argument for %s" % verb.decode())
    return Cmd(verb, args, forms, buf[:i])


def parse_string_line(buf):
    """A line consisting of one string (SASL continuation). -> (value, consumed)"""
    buf = bytes(buf)
    val, form, i = parse_string(buf, 0)
    if len(buf) < i + 2:
        raise NeedMore()
    if buf[i : i + 2] != CRLF:
        raise Violation("CRLF expected after string")
    return val, i + 2


def parse_all(data):
    """Parse a complete byte string into commands. -> (cmds, violation or None, leftover)"""
    cmds = []
    buf = bytes(data)
    while buf:
        try:
            c = parse_command(buf)
        except NeedMore:
            return cmds, "incomplete command", buf
        except Violation as v:
            return cmds, v.reason, buf
        cmds.append(c)
        buf = buf[len(c.raw):]
    return cmds, None, b""


# ---------------------------------------------------------------------------
# encoder (server -> client)


def can_quote(b):
    return not any(c in (0, 10, 13) for c in b) and _valid_utf8(b) and len(b) <= 1024


def enc_quoted(b):
    return b'"' + b.replace(b"\\", b"\\\\").replace(b'"', b'\\"') + b'"'


def enc_literal(b):
    return b"{%d}" % len(b) + CRLF + b


def enc_string(b, form):
    if form == "quoted" and can_quote(b):
        return enc_quoted(b)
    return enc_literal(b)


def forms_for(b):
    return ["quoted", "literal"] if can_quote(b) else ["literal"]


def status_line(status, code=None, text=None, text_form="quoted"):
    """code: None or (atom bytes, param bytes or None, param_form)"""
    out = status
    if code is not None:
        atom, param, pform = code
        out += b" (" + atom
        if param is not None:
            out += b" " + enc_string(param, pform)
        out += b")"
    if text is not None:
        out += b" " + enc_string(text, text_form)
    return out + CRLF


def listing_line(name, active, form):
    return enc_string(name, form) + (b" ACTIVE" if active else b"") + CRLF


def capability_line(name, value=None, vform="quoted"):
    out = enc_quoted(name)
    if value is not None:
        out += b" " + enc_string(value, vform)
    return out + CRLF


def split_lines(body):
    """Lines of a script body irrespective of line-ending style, without
    trailing blank lines (the comparison rule of C14/C17)."""
    lines = body.replace(b"\r\n", b"\n").replace(b"\r", b"\n").split(b"\n")
    while lines and lines[-1] == b"":
        lines.pop()
    return lines
