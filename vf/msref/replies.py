"""Generators of server replies from the RFC 5804 response grammar, with the
abstract reply next to the bytes so that expectations are computed from the
abstract reply, never by re-parsing (DESIGN 2.5)."""

from hypothesis import strategies as st

from . import wire

OPS = ["capability", "havespace", "putscript", "checkscript", "deletescript", "renamescript", "setactive",
       "listscripts", "getscript"]

CODES = [
    (b"QUOTA", None), (b"QUOTA/MAXSIZE", None), (b"QUOTA/MAXSCRIPTS", None), (b"NONEXISTENT", None), (b"ACTIVE", None),
    (b"ALREADYEXISTS", None), (b"WARNINGS", None), (b"TRYLATER", None), (b"REFERRAL", b"sieve://sieve.example.org"),
    (b"TAG", b"x y"), (b"AUTH-TOO-WEAK", None), (b"ENCRYPT-NEEDED", None), (b"SASL", b"cnNwYXV0aD1lYQ=="),
]

TEXT_PARTS = ["Done.", "ok", "OK", "NO", "BYE", "{5}", "{5+}", '"', "\\", " ", "(", ")", "é", "€", "line", "\r\n", "error:",
              "ACTIVE", "a", "Z", "0", "'", "/", "*"]
NAME_PARTS = ["a", "b", "Z", "0", "_", "-", ".", " ", '"', "\\", "é", "€", "ACTIVE", "OK", "NO", "{3}", "{", "}", "(", ")", "script",
              "\t", "active", " ACTIVE", "😀", "'",
              # text that a Unicode normalisation or case folding would change
              "e\u0301", "\u212b", "a\u0300", "\ufb01", "\u1100\u1161", "No", "Ok", "bye"]
LINE_POOL = [b"OK", b'OK "done"', b'NO "x"', b"NO", b"BYE", b"{5}", b"{5+}", b'"a" ACTIVE', b"", b"keep;", b'require "fileinto";',
             "# résumé €".encode("utf-8"), b"x" * 300, b'"quoted"', b"{0}", b"OK (WARNINGS) \"w\"", b" leading space", b"\ttab",
             b"if true {", b"}", b"ACTIVE", b".", b"text:", b"a\x0cb", b"x\x0by", "a\u2028b".encode("utf-8"), "\ufeffbom".encode("utf-8"),
             b"  ", b"trailing  ", b"\ttab\t", b"'", b'"', b"a\rb", "\x85nel".encode("utf-8"), b"a\x1cb", b"\\", b"{3}\"x\"", b"y" * 5000]


def text_bytes(parts, min_size=0, max_size=5):
    return st.lists(st.sampled_from(parts), min_size=min_size, max_size=max_size).map(lambda x: "".join(x).encode("utf-8"))


@st.composite
def status(draw, kinds=(b"OK", b"NO", b"BYE")):
    st_ = draw(st.sampled_from(list(kinds)))
    code = None
    if draw(st.booleans()):
        atom, param = draw(st.sampled_from(CODES))
        pform = None
        if param is not None:
            pform = draw(st.sampled_from(wire.forms_for(param)))
        code = (atom, param, pform)
    text = None
    tform = "quoted"
    if draw(st.integers(0, 3)) != 0:
        text = draw(text_bytes(TEXT_PARTS))
        tform = draw(st.sampled_from(wire.forms_for(text)))
    return {"status": st_, "code": code, "text": text, "text_form": tform,
            "bytes": wire.status_line(st_, code, text, tform)}


@st.composite
def script_body(draw):
    lines = draw(st.lists(st.sampled_from(LINE_POOL), min_size=0, max_size=6))
    eol = draw(st.sampled_from([b"\r\n", b"\n", "mixed"]))
    out = b""
    for i, ln in enumerate(lines):
        e = eol if eol != "mixed" else (b"\r\n" if i % 2 else b"\n")
        out += ln + e
    if lines and draw(st.booleans()):
        # no final newline
        out = out[: -len(e)]
    return out


@st.composite
def names(draw, max_size=5):
    ns = draw(st.lists(text_bytes(NAME_PARTS, 1, 4), min_size=0, max_size=max_size, unique=True))
    return ns


@st.composite
def reply(draw, op, kinds=(b"OK", b"NO", b"BYE")):
    """-> dict(op, data (abstract), status (abstract), bytes, spans)"""
    stt = draw(status(kinds))
    data = None
    out = b""
    spans = []  # (start, end) of literal payloads inside the reply bytes
    if stt["status"] == b"OK":
        if op == "listscripts":
            ns = draw(names())
            active = draw(st.sampled_from(ns + [None])) if ns else None
            entries = []
            for n in ns:
                form = draw(st.sampled_from(wire.forms_for(n)))
                entries.append((n, form))
                out += wire.listing_line(n, n == active, form)
            data = {"names": ns, "active": active, "forms": [f for _, f in entries]}
        elif op == "getscript":
            body = draw(script_body())
            form = draw(st.sampled_from(["literal", "literal"] + (["quoted"] if wire.can_quote(body) else [])))
            out += wire.enc_string(body, form) + wire.CRLF
            data = {"body": body, "form": form}
        elif op == "capability":
            caps = [(b"IMPLEMENTATION", draw(text_bytes(["a", "b", " ", "v1", "é"], 1, 4))), (b"SIEVE", b"fileinto vacation")]
            if draw(st.booleans()):
                caps.append((b"SASL", b"PLAIN LOGIN"))
            if draw(st.booleans()):
                caps.append((b"STARTTLS", None))
            if draw(st.booleans()):
                caps.append((b"VERSION", b"1.0"))
            for k, v in caps:
                out += wire.capability_line(k, v, draw(st.sampled_from(wire.forms_for(v))) if v is not None else "quoted")
            data = {"caps": caps, "raw": out}
    out += stt["bytes"]
    return {"op": op, "data": data, "status": stt, "bytes": out}


def op_args(op):
    return {
        "capability": (), "havespace": ("s1", 100), "putscript": ("s1", "keep;\r\n"), "checkscript": ("keep;\r\n",),
        "deletescript": ("s1",), "renamescript": ("s1", "s2"), "setactive": ("s1",), "listscripts": (), "getscript": ("s1",),
    }[op]


def expected(rep):
    """Expected observable outcome of the operation for abstract reply rep:
    ('ret', value) with value possibly a predicate marker, or ('exc', 'Error')."""
    s = rep["status"]["status"]
    op = rep["op"]
    if s == b"BYE":
        return ("exc", "Error")
    if s == b"NO":
        return ("ret", None if op in ("capability", "listscripts", "getscript") else False)
    if op == "listscripts":
        d = rep["data"]
        act = d["active"].decode("utf-8") if d["active"] is not None else None
        return ("ret", (act, [n.decode("utf-8") for n in d["names"] if n != d["active"]]))
    if op == "getscript":
        return ("ret", ("lines", [ln.decode("utf-8") for ln in wire.split_lines(rep["data"]["body"])]))
    if op == "capability":
        return ("ret", ("raw", rep["data"]["raw"]))
    return ("ret", True)


def matches(exp, got):
    """got: ('ret', v) / ('exc', type, msg)"""
    if exp[0] == "exc":
        return got[0] == "exc" and got[1] == exp[1]
    if got[0] != "ret":
        return False
    e, g = exp[1], got[1]
    if isinstance(e, tuple) and len(e) == 2 and e[0] == "lines":
        if not isinstance(g, str):
            return False
        return wire.split_lines(g.encode("utf-8")) == [x.encode("utf-8") for x in e[1]]
    if isinstance(e, tuple) and len(e) == 2 and e[0] == "raw":
        return g == e[1]
    if isinstance(e, tuple):
        return isinstance(g, tuple) and len(g) == 2 and g[0] == e[0] and list(g[1]) == list(e[1])
    return g is e or (g == e and type(g) is type(e))


GREETING = (wire.capability_line(b"IMPLEMENTATION", b"vf scripted peer") + wire.capability_line(b"SASL", b"PLAIN")
            + wire.capability_line(b"SIEVE", b"fileinto") + wire.capability_line(b"VERSION", b"1.0")
            + wire.status_line(b"OK", None, b"ready"))
GREETING_NOVERSION = (wire.capability_line(b"IMPLEMENTATION", b"vf scripted peer") + wire.capability_line(b"SASL", b"PLAIN")
                      + wire.capability_line(b"SIEVE", b"fileinto") + wire.status_line(b"OK", None, b"ready"))
AUTH_OK = wire.status_line(b"OK", None, b"Logged in.")
