"""Executable reference model of an RFC 5804 ManageSieve server (DESIGN 2.5,
Appendix B).  It parses what the client writes with the strict command
parser, keeps a script store, answers with encodings / response codes /
permitted NO outcomes picked by a chooser, and logs protocol violations."""

import base64
import collections

from . import wire, sasl

IMPLEMENTED_MECHS = ("DIGEST-MD5", "PLAIN", "LOGIN", "OAUTHBEARER")


class Chooser:
    """Default: always the first option; records nothing."""

    def choose(self, label, options):
        return options[0]


class ListChooser(Chooser):
    """Replays recorded choice indices (falls back to 0)."""

    def __init__(self, indices):
        self.indices = list(indices)
        self.pos = 0

    def choose(self, label, options):
        i = self.indices[self.pos] if self.pos < len(self.indices) else 0
        self.pos += 1
        return options[i % len(options)]


class DrawChooser(Chooser):
    """Draws from Hypothesis and records the indices for replay."""

    def __init__(self, data):
        self.data = data
        self.record = []

    def choose(self, label, options):
        from hypothesis import strategies as st
        i = self.data.draw(st.integers(0, len(options) - 1), label=label)
        self.record.append(i)
        return options[i]


def default_config():
    return {
        "implementation": "vf reference server",
        "sasl": ["PLAIN"],  # None: no SASL capability line at all
        "sasl_tls": None,  # list announced after TLS (None: same as before)
        "sieve": "fileinto vacation",
        "starttls": False,
        "version": True,
        "scripts": [],  # list of (name bytes, body bytes)
        "active": None,
        "maxsize": 1 << 20,
        "maxscripts": 16,
        "auth_ok": True,
        "password": None,  # DIGEST-MD5 needs to know the password to verify
        "realm": "example.org",
        "nonce": "OA6MG9tEQGm2hh",
        "faults": [],  # (verb, occurrence (0-based) or "*", kind) kind in NO|NO:<CODE>|BYE|BYE:REFERRAL|SILENCE|MALFORMED|LOOKALIKE
        "host": "server.example.org",
    }


class RefServer:
    def __init__(self, config=None, chooser=None):
        cfg = default_config()
        cfg.update(config or {})
        self.cfg = cfg
        self.chooser = chooser or Chooser()
        self.scripts = collections.OrderedDict((bytes(n), bytes(b)) for n, b in cfg["scripts"])
        self.active = cfg["active"]
        self.authenticated = False
        self.tls = False
        self.buf = bytearray()
        self.violations = []
        self.log = []  # (channel, Cmd) in order received
        self.seen = collections.Counter()
        self.sasl_state = None
        self.auth_record = None  # what the reference SASL server decoded
        self.auth_attempts = []  # (channel, mech)
        self.replies = []  # abstract replies, one per answered command
        self.closed = False

    # --- helpers
    def choose(self, label, options):
        return self.chooser.choose(label, options)

    def violation(self, why, data=b""):
        self.violations.append((why, bytes(data)[:200]))

    def caps(self):
        c = self.cfg
        out = wire.capability_line(b"IMPLEMENTATION", c["implementation"].encode())
        mechs = c["sasl"] if (not self.tls or c["sasl_tls"] is None) else c["sasl_tls"]
        if mechs is not None:
            out += wire.capability_line(b"SASL", " ".join(mechs).encode())
        out += wire.capability_line(b"SIEVE", c["sieve"].encode())
        if c["starttls"] and not self.tls:
            out += wire.capability_line(b"STARTTLS")
        if c["version"]:
            out += wire.capability_line(b"VERSION", b"1.0")
        return out

    def mechs(self):
        c = self.cfg
        m = c["sasl"] if (not self.tls or c["sasl_tls"] is None) else c["sasl_tls"]
        return m or []

    def status(self, sock, status, code=None, text=None, cmd=None):
        """Emit a status line with chooser-picked text form."""
        form = "quoted"
        if text is not None:
            form = self.choose("text-form", wire.forms_for(text))
        sock.feed(wire.status_line(status, code, text, form))
        self.replies.append({"verb": cmd.verb if cmd is not None else None, "status": status, "code": code, "text": text})

    def ok(self, sock, cmd, text=b"Done."):
        variant = self.choose("ok-variant", ["text", "notext", "code+text"])
        if variant == "text":
            self.status(sock, b"OK", None, text, cmd)
        elif variant == "notext":
            self.status(sock, b"OK", None, None, cmd)
        else:
            self.status(sock, b"OK", (b"WARNINGS", None, None) if cmd is not None and cmd.verb in (b"PUTSCRIPT", b"CHECKSCRIPT") else (b"TAG", b"t1", "quoted"), text, cmd)

    def no(self, sock, cmd, code, text):
        variant = self.choose("no-variant", ["code+text", "text", "code", "bare"] if code else ["text", "bare"])
        c = (code, None, None) if isinstance(code, bytes) else code
        if variant == "code+text":
            self.status(sock, b"NO", c, text, cmd)
        elif variant == "text":
            self.status(sock, b"NO", None, text, cmd)
        elif variant == "code":
            self.status(sock, b"NO", c, None, cmd)
        else:
            self.status(sock, b"NO", None, None, cmd)

    # --- transport callbacks
    def on_connect(self, sock):
        f = self.fault(b"GREETING")
        if f == "SILENCE":
            return
        if f == "BYE":
            sock.feed(wire.status_line(b"BYE", None, b"too busy"))
            return
        if f == "BYE:REFERRAL":
            sock.feed(wire.status_line(b"BYE", (b"REFERRAL", b"sieve://other.example.org", "quoted"), b"try the other server"))
            self.closed = True
            return
        if f == "NO":
            sock.feed(self.caps() + wire.status_line(b"NO", None, b"go away"))
            return
        if f == "MALFORMED":
            sock.feed(b"* garbage greeting\r\n")
            return
        sock.feed(self.caps() + wire.status_line(b"OK", None, b"ready"))

    def on_tls(self, sock):
        self.tls = True
        if self.buf:
            self.violation("bytes pending across TLS negotiation", self.buf)
            self.buf.clear()
        f = self.fault(b"TLSGREETING")
        if f == "SILENCE":
            return
        if f == "BYE":
            sock.feed(wire.status_line(b"BYE", None, b"bye"))
            return
        if f == "BYE:REFERRAL":
            sock.feed(wire.status_line(b"BYE", (b"REFERRAL", b"sieve://other.example.org", "quoted"), b"try the other server"))
            self.closed = True
            return
        if f == "MALFORMED":
            sock.feed(b"* garbage\r\n")
            return
        sock.feed(self.caps() + wire.status_line(b"NO" if f == "NO" else b"OK", None, b"TLS ready"))

    def on_tls_failed(self, sock):
        self.closed = True

    def fault(self, verb):
        k = self.seen[verb]
        self.seen[verb] += 1
        for v, occ, kind in self.cfg["faults"]:
            if v == verb and (occ == k or occ == "*"):
                return kind
        return None

    def on_bytes(self, sock, data):
        if self.closed:
            self.violation("bytes written after the server closed the connection (BYE/LOGOUT)", data)
            return
        self.buf += data
        while self.buf and not self.closed:
            try:
                if self.sasl_state is not None:
                    val, used = wire.parse_string_line(self.buf)
                    del self.buf[:used]
                    self.sasl_continue(sock, val)
                    continue
                cmd = wire.parse_command(self.buf)
            except wire.NeedMore:
                return
            except wire.Violation as v:
                self.violation("malformed command: " + v.reason, self.buf)
                self.buf.clear()
                self.sasl_state = None
                sock.feed(wire.status_line(b"NO", None, b"protocol error"))
                return
            del self.buf[: len(cmd.raw)]
            self.log.append((sock.channel, cmd))
            self.dispatch(sock, cmd)

    # --- commands
    def dispatch(self, sock, cmd):
        v = cmd.verb
        f = self.fault(v)
        if f == "SILENCE":
            return
        if f == "BYE":
            self.status(sock, b"BYE", (b"TRYLATER", None, None), b"server shutting down", cmd)
            self.closed = True
            return
        if f == "NO":
            self.status(sock, b"NO", (b"TRYLATER", None, None), b"try again later", cmd)
            return
        if f and f.startswith("NO:"):
            # refusal with a given response code, e.g. NO:QUOTA/MAXSIZE
            self.status(sock, b"NO", (f[3:].encode(), None, None), b"refused", cmd)
            return
        if f == "BYE:REFERRAL":
            self.status(sock, b"BYE", (b"REFERRAL", b"sieve://other.example.org", "quoted"), b"try the other server", cmd)
            self.closed = True
            return
        if f == "MALFORMED":
            sock.feed(b"* what\r\n")
            return
        if f == "LOOKALIKE":
            # a data line whose string spells a status name, then the real (negative) status reply
            sock.feed(self.choose("lookalike", [b'"OK"\r\n', b'"ok" "done"\r\n', b'{2}\r\nOK\r\n', b'"OK" (WARNINGS) "fine"\r\n']))
            self.status(sock, b"NO", None, b"refused after a data line", cmd)
            return
        if v in wire.SCRIPT_VERBS and not self.authenticated:
            self.violation("%s before authentication" % v.decode(), cmd.raw)
            self.status(sock, b"NO", None, b"authenticate first", cmd)
            return
        getattr(self, "do_" + v.decode().lower())(sock, cmd)

    def do_capability(self, sock, cmd):
        sock.feed(self.caps())
        self.status(sock, b"OK", None, b"Capability completed.", cmd)

    def do_noop(self, sock, cmd):
        self.status(sock, b"OK", None, b"NOOP completed", cmd)

    def do_logout(self, sock, cmd):
        self.status(sock, b"OK", None, b"bye", cmd)
        self.closed = True

    def do_unauthenticate(self, sock, cmd):
        self.authenticated = False
        self.status(sock, b"OK", None, None, cmd)

    def do_starttls(self, sock, cmd):
        if self.tls or not self.cfg["starttls"]:
            self.violation("STARTTLS not announced", cmd.raw)
            self.status(sock, b"NO", None, b"no TLS", cmd)
            return
        self.status(sock, b"OK", None, b"Begin TLS negotiation now.", cmd)
        inj = self.cfg.get("inject_after_starttls")
        if inj is not None:
            # cleartext that somebody on the path appends to the STARTTLS reply (the well-known
            # STARTTLS plaintext injection): a capability listing announcing other mechanisms
            sock.feed(wire.capability_line(b"IMPLEMENTATION", b"injected") + wire.capability_line(b"SASL", " ".join(inj).encode())
                      + wire.capability_line(b"SIEVE", b"fileinto") + wire.status_line(b"OK", None, b"injected"))

    def do_authenticate(self, sock, cmd):
        mech = cmd.args[0].decode("utf-8", "replace")
        self.auth_attempts.append((sock.channel, mech))
        if self.authenticated:
            self.violation("AUTHENTICATE after successful authentication", cmd.raw)
        if cmd.forms[0] != "quoted":
            self.violation("auth-type must be a quoted string", cmd.raw)
        if mech.upper() not in [m.upper() for m in self.mechs()]:
            self.violation("mechanism %s not announced" % mech, cmd.raw)
            self.status(sock, b"NO", None, b"unknown mechanism", cmd)
            return
        initial = cmd.args[1] if len(cmd.args) > 1 else None
        m = mech.upper()
        self.sasl_state = {"mech": m, "step": 0, "cmd": cmd}
        try:
            if m == "PLAIN":
                if initial is None:
                    sock.feed(wire.enc_quoted(b"") + wire.CRLF)
                    return
                self.sasl_finish_plain(sock, initial)
            elif m == "OAUTHBEARER":
                if initial is None:
                    sock.feed(wire.enc_quoted(b"") + wire.CRLF)
                    return
                self.sasl_finish_oauth(sock, initial)
            elif m == "LOGIN":
                if initial is not None:
                    self.violation("LOGIN has no initial response", cmd.raw)
                sock.feed(wire.enc_quoted(base64.b64encode(b"Username:")) + wire.CRLF)
            elif m == "DIGEST-MD5":
                if initial is not None:
                    self.violation("DIGEST-MD5 has no initial response", cmd.raw)
                ch = sasl.digest_challenge(self.cfg["realm"], self.cfg["nonce"])
                sock.feed(wire.enc_quoted(base64.b64encode(ch)) + wire.CRLF)
            else:
                self.sasl_state = None
                self.status(sock, b"NO", None, b"mechanism not implemented by reference server", cmd)
        except sasl.SaslError as e:
            self.sasl_fail(sock, str(e))

    def sasl_fail(self, sock, why):
        cmd = self.sasl_state["cmd"] if self.sasl_state else None
        self.auth_record = {"error": why, "mech": self.sasl_state["mech"] if self.sasl_state else None}
        self.sasl_state = None
        self.status(sock, b"NO", None, b"authentication exchange malformed", cmd)

    def sasl_verdict(self, sock, record):
        cmd = self.sasl_state["cmd"]
        self.auth_record = record
        self.sasl_state = None
        f = self.fault(b"AUTHVERDICT")
        if f == "BYE":
            self.status(sock, b"BYE", None, b"too many failures", cmd)
            self.closed = True
            return
        if f == "BYE:REFERRAL":
            self.status(sock, b"BYE", (b"REFERRAL", b"sieve://other.example.org", "quoted"), b"try the other server", cmd)
            self.closed = True
            return
        if f == "SILENCE":
            return
        if self.cfg["auth_ok"] and f != "NO":
            self.authenticated = True
            self.status(sock, b"OK", None, b"Logged in.", cmd)
        else:
            self.status(sock, b"NO", None, b"Authentication failed.", cmd)

    def sasl_finish_plain(self, sock, b64):
        rec = sasl.plain_decode(sasl.b64d(b64))
        rec["mech"] = "PLAIN"
        self.sasl_verdict(sock, rec)

    def sasl_finish_oauth(self, sock, b64):
        rec = sasl.oauthbearer_decode(sasl.b64d(b64))
        rec["mech"] = "OAUTHBEARER"
        self.sasl_verdict(sock, rec)

    def sasl_continue(self, sock, val):
        s = self.sasl_state
        try:
            if s["mech"] == "PLAIN":
                self.sasl_finish_plain(sock, val)
            elif s["mech"] == "OAUTHBEARER":
                self.sasl_finish_oauth(sock, val)
            elif s["mech"] == "LOGIN":
                if s["step"] == 0:
                    s["login"] = sasl.b64d(val)
                    s["step"] = 1
                    sock.feed(wire.enc_quoted(base64.b64encode(b"Password:")) + wire.CRLF)
                else:
                    try:
                        rec = {"mech": "LOGIN", "login": s["login"].decode("utf-8"), "password": sasl.b64d(val).decode("utf-8")}
                    except UnicodeDecodeError:
                        raise sasl.SaslError("not UTF-8")
                    self.sasl_verdict(sock, rec)
            elif s["mech"] == "DIGEST-MD5":
                if s["step"] == 0:
                    pw = self.cfg["password"]
                    rec = sasl.digest_verify(sasl.b64d(val), self.cfg["realm"], self.cfg["nonce"], pw if pw is not None else "", self.cfg["host"])
                    rec["mech"] = "DIGEST-MD5"
                    s["rec"] = rec
                    s["step"] = 1
                    if not self.cfg["auth_ok"]:
                        self.sasl_verdict(sock, rec)
                        return
                    sock.feed(wire.enc_quoted(base64.b64encode(rec.pop("rspauth"))) + wire.CRLF)
                else:
                    if val != b"":
                        self.violation("DIGEST-MD5 final client response must be empty", val)
                    self.sasl_verdict(sock, s["rec"])
        except sasl.SaslError as e:
            self.sasl_fail(sock, str(e))

    # --- script commands
    def do_havespace(self, sock, cmd):
        name, size = cmd.args
        if size > self.cfg["maxsize"]:
            self.no(sock, cmd, b"QUOTA/MAXSIZE", b"Quota exceeded")
        elif name not in self.scripts and len(self.scripts) >= self.cfg["maxscripts"]:
            self.no(sock, cmd, b"QUOTA/MAXSCRIPTS", b"Too many scripts")
        else:
            self.ok(sock, cmd)

    def do_putscript(self, sock, cmd):
        name, body = cmd.args
        if len(body) > self.cfg["maxsize"]:
            self.no(sock, cmd, b"QUOTA/MAXSIZE", b"Quota exceeded")
            return
        if name not in self.scripts and len(self.scripts) >= self.cfg["maxscripts"]:
            self.no(sock, cmd, b"QUOTA/MAXSCRIPTS", b"Too many scripts")
            return
        if self.choose("putscript-outcome", ["store", "store", "store", "refuse"]) == "refuse":
            self.no(sock, cmd, None, b"line 1: syntax error\r\nline 2: another one")
            return
        self.scripts[name] = body
        self.ok(sock, cmd)

    def do_checkscript(self, sock, cmd):
        if not self.cfg["version"]:
            self.violation("CHECKSCRIPT sent to a server without VERSION", cmd.raw)
        if self.choose("checkscript-outcome", ["ok", "ok", "refuse"]) == "refuse":
            self.no(sock, cmd, None, b"line 1: syntax error")
        else:
            self.ok(sock, cmd)

    def do_listscripts(self, sock, cmd):
        for name in self.scripts:
            form = self.choose("name-form", wire.forms_for(name))
            sock.feed(wire.listing_line(name, name == self.active, form))
        self.ok(sock, cmd, b"Listscripts completed.")

    def do_setactive(self, sock, cmd):
        name = cmd.args[0]
        if name == b"":
            self.active = None
            self.ok(sock, cmd)
        elif name not in self.scripts:
            self.no(sock, cmd, b"NONEXISTENT", b"No such script")
        else:
            self.active = name
            self.ok(sock, cmd)

    def do_getscript(self, sock, cmd):
        name = cmd.args[0]
        if name not in self.scripts:
            self.no(sock, cmd, b"NONEXISTENT", b"No such script")
            return
        body = self.scripts[name]
        form = self.choose("body-form", ["literal"] + (["quoted"] if wire.can_quote(body) else []))
        sock.feed(wire.enc_string(body, form) + wire.CRLF)
        self.ok(sock, cmd, b"Getscript completed.")

    def do_deletescript(self, sock, cmd):
        name = cmd.args[0]
        if name not in self.scripts:
            self.no(sock, cmd, b"NONEXISTENT", b"No such script")
        elif name == self.active:
            self.no(sock, cmd, b"ACTIVE", b"Script is active")
        else:
            del self.scripts[name]
            self.ok(sock, cmd)

    def do_renamescript(self, sock, cmd):
        if not self.cfg["version"]:
            self.violation("RENAMESCRIPT sent to a server without VERSION", cmd.raw)
        old, new = cmd.args
        if old not in self.scripts:
            self.no(sock, cmd, b"NONEXISTENT", b"No such script")
        elif new in self.scripts:
            self.no(sock, cmd, b"ALREADYEXISTS", b"Script exists")
        else:
            items = [(new if k == old else k, v) for k, v in self.scripts.items()]
            self.scripts = collections.OrderedDict(items)
            if self.active == old:
                self.active = new
            self.ok(sock, cmd)

    # --- views
    def snapshot(self):
        return {"scripts": [(n, wire.split_lines(b)) for n, b in self.scripts.items()], "active": self.active}
