"""Fake transport for sievelib.managesieve.Client (DESIGN 2.5).

FakeSocket implements sendall/recv/settimeout/close.  Writes are logged with
the channel they were written on ('plain' / 'tls') and handed to the peer;
bytes queued by the peer are delivered according to a segmentation schedule.
recv(n) never returns more than n bytes; with an empty queue it raises
socket.timeout (a blocked read that times out)."""

import contextlib
import socket
import ssl
from unittest import mock

from .. import impl  # noqa: F401  (repository on sys.path)
from sievelib import managesieve as sl_ms


class FakeSocket:
    def __init__(self, peer, schedule=None, cap=None):
        self.peer = peer
        self.schedule = list(schedule or [])  # chunk sizes applied to the incoming byte stream
        self.cap = cap
        self.inq = bytearray()
        self.channel = "plain"
        self.writes = []  # (channel, bytes)
        self.delivered = 0
        self.recv_calls = 0
        self.closed = False
        self._boundary = None  # bytes left before the next scheduled boundary
        self.timeouts = 0

    # --- peer side
    def feed(self, data):
        self.inq += data

    # --- client side
    def settimeout(self, t):
        pass

    def close(self):
        self.closed = True

    def sendall(self, data):
        data = bytes(data)
        self.writes.append((self.channel, data))
        self.peer.on_bytes(self, data)

    def send(self, data):
        self.sendall(data)
        return len(data)

    def recv(self, n):
        self.recv_calls += 1
        if not self.inq:
            self.timeouts += 1
            raise socket.timeout("timed out")
        k = min(n, len(self.inq))
        if self.cap:
            k = min(k, self.cap)
        if self._boundary is None and self.schedule:
            self._boundary = max(1, self.schedule.pop(0))
        if self._boundary is not None:
            k = min(k, self._boundary)
            self._boundary -= k
            if self._boundary == 0:
                self._boundary = None
        k = max(1, k) if n > 0 else 0
        out = bytes(self.inq[:k])
        del self.inq[:k]
        self.delivered += len(out)
        return out

    def written(self, channel=None):
        return b"".join(d for c, d in self.writes if channel is None or c == channel)


class FakeContext:
    """Stands for ssl.SSLContext: wrap_socket either fails or switches the
    transport to the TLS channel and lets the peer speak again."""

    def __init__(self, handshake_ok=True):
        self.handshake_ok = handshake_ok
        self.wrapped = []

    def load_cert_chain(self, *a, **k):
        pass

    def wrap_socket(self, sock, server_hostname=None, **kw):
        if not self.handshake_ok:
            sock.peer.on_tls_failed(sock)
            raise ssl.SSLError("handshake failure (simulated)")
        if sock.inq:
            # cleartext still unread in the socket when the handshake starts: a TLS layer
            # would take it for a (broken) handshake record
            del sock.inq[:]
            sock.peer.on_tls_failed(sock)
            raise ssl.SSLError("handshake failure: unexpected cleartext (simulated)")
        sock.channel = "tls"
        self.wrapped.append(sock)
        sock.peer.on_tls(sock)
        return sock


class Session:
    """A Client wired to a peer through a FakeSocket."""

    def __init__(self, peer, schedule=None, cap=None, handshake_ok=True):
        self.peer = peer
        self.sock = FakeSocket(peer, schedule, cap)
        self.ctx = FakeContext(handshake_ok)
        self.client = sl_ms.Client("server.example.org")
        self.connected = False

    @contextlib.contextmanager
    def patched(self):
        def create_connection(addr, *a, **k):
            self.connected = True
            self.peer.on_connect(self.sock)
            return self.sock

        with mock.patch.object(socket, "create_connection", create_connection), \
                mock.patch.object(ssl, "create_default_context", lambda *a, **k: self.ctx):
            yield self

    def call(self, name, *args, **kwargs):
        """Call a client method; -> ('ret', value) / ('exc', type name, message)."""
        from .. import core as _core
        _core.guard_enter(("client.%s%r" % (name, args))[:2000])
        with self.patched():
            try:
                with impl.cpu_guard():
                    return ("ret", getattr(self.client, name)(*args, **kwargs))
            except sl_ms.Error as e:
                return ("exc", "Error", str(e))
            except impl.CpuLimit:
                return ("exc", "CpuLimit", "call did not return within 3 s of CPU time")
            except Exception as e:  # noqa: BLE001
                return ("exc", impl.exc_bucket(e), repr(e)[:200])
            finally:
                _core.guard_exit()

    def close(self):
        # Client.__del__ closes the socket; make sure nothing lingers
        self.client.sock = None


class ScriptedPeer:
    """Answers the k-th complete client command with the k-th canned reply
    (bytes).  Used where the reply is the generated object (C05, C09, C17)."""

    def __init__(self, greeting, replies):
        from . import wire
        self.wire = wire
        self.greeting = greeting
        self.replies = list(replies)
        self.buf = bytearray()
        self.cmds = []
        self.violations = []
        self.sasl_lines = 0

    def on_connect(self, sock):
        sock.feed(self.greeting)

    def on_tls(self, sock):
        if self.replies:
            sock.feed(self.replies.pop(0))

    def on_tls_failed(self, sock):
        pass

    def on_bytes(self, sock, data):
        self.buf += data
        while self.buf:
            try:
                c = self.wire.parse_command(self.buf)
            except self.wire.NeedMore:
                return
            except self.wire.Violation as v:
                self.violations.append((v.reason, bytes(self.buf)))
                self.buf.clear()
                c = None
            if c is not None:
                del self.buf[: len(c.raw)]
                self.cmds.append(c)
            if self.replies:
                r = self.replies.pop(0)
                if callable(r):
                    # a reply computed from the command it answers (e.g. DIGEST-MD5 rspauth)
                    r = r(self, c)
                sock.feed(r)
