"""Shared runner machinery: collectors, sharding, known findings, evidence,
exit codes (DESIGN.md section 1, R2-R6)."""

import base64
import collections
import hashlib
import json
import os
import re
import sys
import time
import traceback

ROOT = os.path.dirname(os.path.dirname(os.path.abspath(__file__)))
EVID_DIR = os.environ.get("VERIF_EVIDENCE_DIR") or os.path.join(ROOT, "evidence")
REPLAY_DIR = os.environ.get("VERIF_REPLAY_DIR") or os.path.join(ROOT, "replays")
NPROC = int(os.environ.get("VERIF_PROCS", "0")) or min(16, os.cpu_count() or 1)


class HarnessError(Exception):
    """Problem in the machinery itself: exit 2, never a VIOLATION."""


def h64(b):
    if isinstance(b, str):
        b = b.encode("utf-8", "surrogatepass")
    return int.from_bytes(hashlib.blake2b(b, digest_size=8).digest(), "big")


def jsonable(x):
    if isinstance(x, bytes):
        try:
            s = x.decode("utf-8")
            return {"$b": s}
        except UnicodeDecodeError:
            return {"$b64": base64.b64encode(x).decode("ascii")}
    if isinstance(x, (list, tuple)):
        return [jsonable(v) for v in x]
    if isinstance(x, dict):
        return {str(k): jsonable(v) for k, v in x.items()}
    if isinstance(x, (set, frozenset)):
        return sorted(jsonable(v) for v in x)
    if isinstance(x, (str, int, float, bool)) or x is None:
        return x
    return repr(x)


def unjson(x):
    if isinstance(x, dict):
        if set(x) == {"$b"}:
            return x["$b"].encode("utf-8")
        if set(x) == {"$b64"}:
            return base64.b64decode(x["$b64"])
        return {k: unjson(v) for k, v in x.items()}
    if isinstance(x, list):
        return [unjson(v) for v in x]
    return x


class Collector:
    """Per-shard record of what was explored and what failed."""

    MAXSAMPLES = 12

    def __init__(self):
        self.evals = 0
        self.nt_hashes = set()
        self.nt_counted = 0  # distinct by construction (exhaustive enumerations)
        self.classes = collections.Counter()
        self.samples = []
        self.fails = {}  # bucket -> {"count", "case", "detail", "size"}
        self.notes = collections.Counter()
        self.exhaustive = None
        self.inconclusive = []

    # --- recording
    def case(self, key=None, nontrivial=False, classes=(), sample=None, n=1):
        self.evals += n
        if nontrivial:
            if key is None:
                self.nt_counted += n
            else:
                self.nt_hashes.add(h64(key))
        for c in classes:
            self.classes[c] += 1
        if sample is not None and len(self.samples) < self.MAXSAMPLES:
            self.samples.append(sample)

    def cls(self, *names):
        for c in names:
            self.classes[c] += 1

    def fail(self, bucket, case, detail=None, size=None):
        if size is None:
            size = len(json.dumps(jsonable(case)))
        f = self.fails.get(bucket)
        if f is None:
            self.fails[bucket] = {"count": 1, "case": case, "detail": detail, "size": size}
        else:
            f["count"] += 1
            if size < f["size"]:
                f.update(case=case, detail=detail, size=size)

    def merge(self, o):
        self.evals += o.evals
        self.nt_hashes |= o.nt_hashes
        self.nt_counted += o.nt_counted
        self.classes.update(o.classes)
        self.notes.update(o.notes)
        for s in o.samples:
            if len(self.samples) < self.MAXSAMPLES:
                self.samples.append(s)
        for b, f in o.fails.items():
            g = self.fails.get(b)
            if g is None:
                self.fails[b] = dict(f)
            else:
                g["count"] += f["count"]
                if f["size"] < g["size"]:
                    g.update(case=f["case"], detail=f["detail"], size=f["size"])
        self.inconclusive.extend(o.inconclusive)
        if o.exhaustive is False:
            self.exhaustive = False

    @property
    def distinct_nontrivial(self):
        return len(self.nt_hashes) + self.nt_counted


# ---------------------------------------------------------------------------
# sharded execution
#
# Every shard runs in a forked child of its own.  While the code under test is
# running inside a child, the input it is working on is kept in a shared-memory
# slot and the kernel's RLIMIT_CPU soft limit is set a few seconds ahead of the
# CPU time already used: a hang inside C code (a catastrophic regular
# expression), which no Python-level timer can interrupt, kills the child with
# SIGXCPU; the parent then reads the slot and reports the input instead of
# waiting for ever.

import mmap  # noqa: E402
import pickle  # noqa: E402
import resource  # noqa: E402
import select  # noqa: E402
import signal  # noqa: E402

# counter shared by the main process and all shard children (created before any
# fork): number of CPU-slow / hung calls of the code under test seen so far
_shared = mmap.mmap(-1, 16)


def slow_count():
    return int.from_bytes(_shared[0:8], "little")


def slow_incr():
    _shared[0:8] = (slow_count() + 1).to_bytes(8, "little")


SLOT_SIZE = 1 << 16
CPU_KILL_AFTER = 6  # seconds of CPU time for one guarded call (kernel limit, whole seconds: 5-6 s)
_slot = None  # set in shard children
_hard = resource.getrlimit(resource.RLIMIT_CPU)[1]


def guard_enter(data):
    """Remember what the code under test is about to work on, arm the kill limit."""
    if _slot is None:
        return
    if isinstance(data, str):
        data = data.encode("utf-8", "surrogatepass")
    n = min(len(data), SLOT_SIZE - 4)
    _slot[0:4] = n.to_bytes(4, "little")
    _slot[4 : 4 + n] = data[:n]
    try:
        resource.setrlimit(resource.RLIMIT_CPU, (int(time.process_time()) + CPU_KILL_AFTER, _hard))
    except (ValueError, OSError):
        pass


def guard_exit():
    if _slot is None:
        return
    try:
        resource.setrlimit(resource.RLIMIT_CPU, (_hard, _hard))
    except (ValueError, OSError):
        pass


def unlimited_cpu():
    """preexec_fn for helper subprocesses started from a shard child."""
    try:
        resource.setrlimit(resource.RLIMIT_CPU, (_hard, _hard))
    except (ValueError, OSError):
        pass


def _run_shard(args):
    func, shard = args
    try:
        return ("ok", func(shard))
    except HarnessError as e:
        return ("harness", str(e))
    except BaseException:  # noqa: BLE001
        return ("crash", traceback.format_exc())


class ShardKilled:
    """Result of a shard whose process died (e.g. SIGXCPU inside the code under test)."""

    def __init__(self, shard, signum, current):
        self.shard = shard
        self.signum = signum
        self.current = current


def _child(func, shard, slot, wfd):
    global _slot
    _slot = slot
    signal.signal(signal.SIGXCPU, signal.SIG_DFL)
    res = _run_shard((func, shard))
    data = pickle.dumps(res, protocol=pickle.HIGHEST_PROTOCOL)
    off = 0
    while off < len(data):
        off += os.write(wfd, data[off : off + (1 << 16)])
    os.close(wfd)
    os._exit(0)


def run_shards(func, shards, procs=None, on_killed=None):
    """Run func(shard) -> Collector for every shard, each in a forked child,
    at most `procs` at a time, and merge.  A child killed by the CPU limit is
    turned into on_killed(ShardKilled) -> Collector (default: an 'inconclusive'
    note)."""
    procs = procs or NPROC
    total = Collector()
    pending = list(enumerate(shards))
    slots = [mmap.mmap(-1, SLOT_SIZE) for _ in range(min(procs, max(1, len(shards))))]
    free = list(range(len(slots)))
    running = {}  # rfd -> [pid, idx, slotno, bytearray]
    outcomes = {}
    sys.stdout.flush()
    sys.stderr.flush()
    while pending or running:
        while pending and free:
            idx, shard = pending.pop(0)
            slotno = free.pop()
            slots[slotno][0:4] = (0).to_bytes(4, "little")
            r, w = os.pipe()
            pid = os.fork()
            if pid == 0:
                os.close(r)
                try:
                    _child(func, shard, slots[slotno], w)
                finally:
                    os._exit(3)
            os.close(w)
            running[r] = [pid, idx, slotno, bytearray()]
        ready, _, _ = select.select(list(running), [], [], 5.0)
        for r in ready:
            chunk = os.read(r, 1 << 20)
            if chunk:
                running[r][3] += chunk
                continue
            pid, idx, slotno, buf = running.pop(r)
            os.close(r)
            _, status = os.waitpid(pid, 0)
            if os.WIFEXITED(status) and os.WEXITSTATUS(status) == 0 and buf:
                outcomes[idx] = pickle.loads(bytes(buf))
            else:
                n = int.from_bytes(slots[slotno][0:4], "little")
                cur = bytes(slots[slotno][4 : 4 + n])
                for _ in range(8):
                    slow_incr()  # a killed worker counts like several slow calls
                sig = os.WTERMSIG(status) if os.WIFSIGNALED(status) else -os.WEXITSTATUS(status)
                outcomes[idx] = ("killed", ShardKilled(shards[idx], sig, cur))
            free.append(slotno)
    for idx in range(len(shards)):
        status, val = outcomes[idx]
        if status == "ok":
            total.merge(val)
        elif status == "killed":
            if on_killed is not None:
                total.merge(on_killed(val))
            else:
                total.inconclusive.append("a worker process was killed (signal %s) while the code under test was working on %r; "
                                          "its shard is not covered (hangs are C02's subject)" % (val.signum, val.current[:200]))
                total.exhaustive = False
        elif status == "harness":
            raise HarnessError(val)
        else:
            raise HarnessError("worker crashed:\n" + val)
    return total


# ---------------------------------------------------------------------------
# known findings


def load_known(prop):
    path = os.path.join(ROOT, "known_findings.json")
    if not os.path.exists(path):
        return []
    with open(path) as fp:
        data = json.load(fp)
    out = []
    for f in data.get("findings", []):
        if f.get("property") == prop and f.get("status") == "open":
            out.append(f)
    return out


def finding_matches(finding, bucket):
    pat = finding["match"]["bucket"]
    return re.fullmatch(pat, bucket) is not None


# ---------------------------------------------------------------------------
# delta debugging helper


def ddmin(items, test, budget_s=20.0):
    """Classic ddmin over a list; test(list) -> True when the failure is still
    there.  Bounded by wall clock only as a budget for *shrinking* (never a
    correctness signal)."""
    t0 = time.time()
    n = 2
    items = list(items)
    while len(items) >= 2 and time.time() - t0 < budget_s:
        chunk = max(1, len(items) // n)
        subsets = [items[i : i + chunk] for i in range(0, len(items), chunk)]
        reduced = False
        for i in range(len(subsets)):
            comp = [x for j, s in enumerate(subsets) if j != i for x in s]
            if comp and test(comp):
                items = comp
                n = max(n - 1, 2)
                reduced = True
                break
            if time.time() - t0 >= budget_s:
                break
        if not reduced:
            if n >= len(items):
                break
            n = min(len(items), n * 2)
    return items


# ---------------------------------------------------------------------------
# finishing a run


def finish(prop, tier, seed, level, col, rule, t0, module, assumptions=(), extra=None):
    """Match buckets against known findings, print KNOWN-FINDING / VIOLATION
    lines, write evidence, return exit code."""
    known = load_known(prop)
    out = sys.stdout
    kf_hits = {}
    kf_status = {}
    # 1. replay committed witnesses of open findings
    for f in known:
        wit = unjson(f["witness"])
        try:
            fails = module.replay(wit)
        except HarnessError:
            raise
        except Exception:  # noqa: BLE001
            raise HarnessError("replay of known finding %s crashed:\n%s" % (f["id"], traceback.format_exc()))
        still = any(finding_matches(f, b) for b, _ in fails)
        kf_status[f["id"]] = "reproduces" if still else "witness no longer fails"
        if still:
            out.write("KNOWN-FINDING: property=%s %s [%s]\n" % (prop, f["what"], f["id"]))
        else:
            out.write("NOTE: known finding %s no longer reproduces on its witness\n" % f["id"])
        kf_hits[f["id"]] = 0
    out.flush()
    # 2. buckets
    violations = []
    for bucket in sorted(col.fails):
        f = col.fails[bucket]
        matched = None
        for k in known:
            if finding_matches(k, bucket):
                matched = k
                break
        if matched is not None:
            kf_hits[matched["id"]] += f["count"]
            continue
        violations.append((bucket, f))
    os.makedirs(os.path.join(REPLAY_DIR, prop), exist_ok=True)
    vio_out = []
    for bucket, f in violations:
        name = "v-%s-%016x.json" % (tier, h64(bucket))
        path = os.path.join(REPLAY_DIR, prop, name)
        rel = os.path.relpath(path, ROOT)
        doc = {"property": prop, "bucket": bucket, "case": jsonable(f["case"]),
               "detail": jsonable(f["detail"]), "count": f["count"], "seed": seed, "tier": tier}
        with open(path, "w") as fp:
            json.dump(doc, fp, indent=1, sort_keys=True)
        out.write("VIOLATION property=%s replay=%s\n" % (prop, rel))
        out.write("  bucket: %s (x%d)\n  detail: %s\n" % (bucket, f["count"], json.dumps(jsonable(f["detail"]))[:600]))
        out.flush()
        # bounded shrink, rewrite in place
        shr = getattr(module, "shrink", None)
        if shr is not None:
            try:
                small = shr(f["case"], bucket, 20.0 if tier == "quick" else 120.0)
                if small is not None:
                    doc["case"] = jsonable(small)
                    doc["shrunk"] = True
                    with open(path, "w") as fp:
                        json.dump(doc, fp, indent=1, sort_keys=True)
            except Exception:  # noqa: BLE001
                out.write("  (shrinking failed: %s)\n" % traceback.format_exc().splitlines()[-1])
        vio_out.append({"bucket": bucket, "count": f["count"], "replay": rel})
    # 3. evidence
    samples = [jsonable(s) for s in col.samples]
    if not samples:
        raise HarnessError("no samples recorded")
    cov = {
        "evaluations": col.evals,
        "distinct_nontrivial": col.distinct_nontrivial,
        "rule": rule,
        "samples": samples,
        "classes": dict(sorted(col.classes.items())),
        "failure_buckets": {b: f["count"] for b, f in sorted(col.fails.items())},
        "known_findings": {k: {"hits": kf_hits[k], "witness": kf_status[k]} for k in kf_hits},
        "violations": vio_out,
    }
    if col.exhaustive is not None:
        cov["exhaustive"] = bool(col.exhaustive)
    if col.inconclusive:
        cov["inconclusive"] = col.inconclusive
    if col.notes:
        cov["notes"] = dict(col.notes)
    if extra:
        cov.update(extra)
    ev = {
        "property_id": prop,
        "tier": tier,
        "seed": seed,
        "level": level,
        "coverage": cov,
        "assumptions": list(assumptions),
        "wall_s": round(time.time() - t0, 2),
        "violations": len(violations),
    }
    os.makedirs(EVID_DIR, exist_ok=True)
    with open(os.path.join(EVID_DIR, "%s.json" % prop), "w") as fp:
        json.dump(ev, fp, indent=1, sort_keys=True)
    out.write("%s tier=%s seed=%d evaluations=%d distinct_nontrivial=%d buckets=%d violations=%d wall=%.1fs\n" % (
        prop, tier, seed, col.evals, col.distinct_nontrivial, len(col.fails), len(violations), time.time() - t0))
    out.flush()
    if col.evals < 1 or col.distinct_nontrivial < 2:
        raise HarnessError("generator produced too few non-trivial cases")
    return 1 if violations else 0
