"""Coverage-guided byte fuzzing of Parser.parse with the C02 oracle inside the
target (atheris / libFuzzer).  Run as a subprocess by vf/props/c02.py:

  python -m vf.fuzz_c02 <findings.jsonl> <corpus_dir> [libFuzzer flags]

Oracle failures never crash the target: each new bucket is appended to the
findings file and the campaign continues (R3)."""
import base64
import json
import os
import sys

findings_path = sys.argv[1]
argv = [sys.argv[0]] + sys.argv[2:]

sys.path.insert(0, os.path.join(os.path.dirname(os.path.dirname(os.path.abspath(__file__))), ".deps"))
import atheris  # noqa: E402

with atheris.instrument_imports(include=["sievelib"]):
    import sievelib.commands  # noqa: F401
    import sievelib.parser  # noqa: F401

from vf import impl  # noqa: E402
from vf.props import c02  # noqa: E402

seen = set()
count = [0]


def TestOneInput(data):
    count[0] += 1
    o = impl.parse_outcome(data)
    fails = c02.check_shape(data, o)
    for b, d in fails:
        if b not in seen:
            seen.add(b)
            with open(findings_path, "a") as fp:
                fp.write(json.dumps({"bucket": b, "data": base64.b64encode(data).decode(), "detail": repr(d)[:300]}) + "\n")


atheris.Setup(argv, TestOneInput)
atheris.Fuzz()
