from .lexer import lex, string_value, Tok  # noqa
from .generic import parse_generic, GenericError  # noqa
from .table import TABLE, SUPPORTED_EXTENSIONS, Entry, Slot, Pos, construct_extension_map  # noqa
from .validate import analyze, analyze_tokens, viable, VALID, INVALID, UNSPEC  # noqa
