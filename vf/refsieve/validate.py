"""Table-driven recogniser for the supported Sieve language.

Eager left-to-right recursive descent: it stops at the *first* token after
which no valid completion exists (viable-prefix property), so ``bad`` is the
index of the first offending token (len(tokens) = end of input reached while
something was still required).

Verdicts: VALID / INVALID / UNSPEC (see DESIGN.md section 2.2, Appendix A).
"""

from .lexer import lex, string_value
from .table import TABLE, SUPPORTED_EXTENSIONS

VALID, INVALID, UNSPEC = "VALID", "INVALID", "UNSPEC"


class Stop(Exception):
    def __init__(self, idx, reason, info=None):
        Exception.__init__(self, reason)
        self.idx = idx
        self.reason = reason
        self.info = info


class Result:
    __slots__ = ("verdict", "reason", "bad", "info", "unspec", "uses", "requires",
                 "tokens", "ntok", "maxdepth", "features", "lex_unspec")

    def __repr__(self):
        return "Result(%s,%s,bad=%s,unspec=%s)" % (self.verdict, self.reason, self.bad, self.unspec[:2])


class _A:
    def __init__(self, toks, table, strict, known_exts):
        self.t = toks
        self.n = len(toks)
        self.table = table
        self.strict = strict
        self.known_exts = known_exts
        self.loaded = []
        self.unspec = []
        self.uses = []  # (token index, extension, what)
        self.requires = []  # (token index of the string, extension name)
        self.maxdepth = 0
        self.features = set()

    # -- helpers
    def kind(self, i):
        return self.t[i].kind if i < self.n else None

    def note(self, i, why):
        self.unspec.append((i, why))

    def need_ext(self, i, ext, what):
        if ext is None:
            return
        self.uses.append((i, ext, what))
        if ext not in self.loaded:
            raise Stop(i, "extension-not-loaded", ext)

    def bad_token(self, i, default):
        k = self.kind(i)
        if k is None:
            raise Stop(self.n, "eof-incomplete")
        if k == "junk":
            raise Stop(i, "lexical")
        raise Stop(i, default)

    # -- grammar
    def script(self):
        i = self.commands(0, 0)
        if i < self.n:
            # only a stray '}' can get here
            raise Stop(i, "bracket")

    def commands(self, i, depth):
        self.maxdepth = max(self.maxdepth, depth)
        prev = None
        only_requires = True
        while True:
            k = self.kind(i)
            if k is None:
                if depth:
                    raise Stop(self.n, "eof-incomplete")
                return i
            if k == "}":
                if depth:
                    return i
                raise Stop(i, "bracket")
            if k != "ident":
                if k in ("]", ")", "{", "[", "("):
                    self.bad_token(i, "bracket")
                self.bad_token(i, "unexpected-token")
            name = self.t[i].text.lower()
            if name == b"require" and (depth or not only_requires):
                self.note(i, "require-not-first")
            if name != b"require":
                only_requires = False
            i = self.command(i, depth, prev)
            prev = name

    def command(self, i, depth, prev):
        name = self.t[i].text.lower()
        e = self.table.get(name)
        if e is None:
            raise Stop(i, "unknown-command")
        if e.role == "test":
            raise Stop(i, "wrong-role")
        self.need_ext(i, e.ext, ("cmd", name))
        if e.follow is not None and prev not in e.follow:
            raise Stop(i, "misplaced-elsif-else")
        if self.t[i].text != name:
            self.features.add("uppercase-ident")
        first_arg = i + 1
        i = self.arguments(i + 1, e)
        i = self.testpart(i, e, depth)
        k = self.kind(i)
        if e.block:
            if k != "{":
                if k == ";":
                    raise Stop(i, "missing-block")
                self.bad_token(i, "missing-block")
            i = self.commands(i + 1, depth + 1)
            # commands() returns at '}' when depth > 0
            return i + 1
        if k == ";":
            if name == b"require":
                self.complete_require(first_arg, i)
            return i + 1
        if k == "{":
            raise Stop(i, "block-after-action")
        if k == "ident":
            te = self.table.get(self.t[i].text.lower())
            if te is not None and te.role == "test":
                raise Stop(i, "surplus-test")
            raise Stop(i, "missing-semicolon")
        if k == "(":
            raise Stop(i, "surplus-test")
        if k in ("str", "mls", "num", "tag", "["):
            raise Stop(i, "surplus")
        self.bad_token(i, "missing-semicolon")

    def complete_require(self, a, b):
        for j in range(a, b):
            tk = self.t[j]
            if tk.kind == "mls":
                self.note(j, "multi-line extension name")
                continue
            if tk.kind != "str":
                continue
            raw = tk.text[1:-1]
            if b"\\" in raw:
                self.note(j, "escape in extension name")
            try:
                ext = string_value(tk).decode("utf-8")
            except UnicodeDecodeError:
                self.note(j, "non-utf8 extension name")
                continue
            if ext not in self.known_exts:
                self.note(j, "unknown-extension")
            self.requires.append((j, ext))
            if ext not in self.loaded:
                self.loaded.append(ext)

    def testpart(self, i, e, depth):
        if e.test is None:
            return i
        if e.test == "one":
            if self.kind(i) != "ident":
                if self.kind(i) == "(":
                    raise Stop(i, "testlist-for-single-test")
                self.bad_token(i, "missing-test")
            return self.test(i, depth)
        # list
        if self.kind(i) != "(":
            self.bad_token(i, "missing-testlist")
        i += 1
        cnt = 0
        while True:
            if self.kind(i) != "ident":
                if self.kind(i) == ")" and cnt == 0:
                    raise Stop(i, "empty-list")
                self.bad_token(i, "malformed-testlist")
            i = self.test(i, depth)
            cnt += 1
            k = self.kind(i)
            if k == ",":
                i += 1
                continue
            if k == ")":
                if cnt > 1:
                    self.features.add("testlist>1")
                return i + 1
            if k in ("]", "}"):
                self.bad_token(i, "bracket")
            self.bad_token(i, "malformed-testlist")

    def test(self, i, depth):
        name = self.t[i].text.lower()
        e = self.table.get(name)
        if e is None:
            raise Stop(i, "unknown-command")
        if e.role != "test":
            raise Stop(i, "wrong-role")
        self.need_ext(i, e.ext, ("cmd", name))
        if self.t[i].text != name:
            self.features.add("uppercase-ident")
        i = self.arguments(i + 1, e)
        i = self.testpart(i, e, depth)
        if e.test is None:
            # a test that takes no test must not be followed by one
            k = self.kind(i)
            if k == "ident" or k == "(":
                raise Stop(i, "surplus-test")
        return i

    def stringlist(self, i):
        """t[i] is '['.  Returns index after ']'."""
        i += 1
        cnt = 0
        while True:
            k = self.kind(i)
            if k not in ("str", "mls"):
                if k == "]" and cnt == 0:
                    raise Stop(i, "empty-list")
                if k in (")", "}"):
                    self.bad_token(i, "bracket")
                self.bad_token(i, "malformed-list")
            if k == "mls":
                self.features.add("multiline")
            i += 1
            cnt += 1
            k = self.kind(i)
            if k == ",":
                i += 1
                continue
            if k == "]":
                self.features.add("list")
                return i + 1
            if k in (")", "}"):
                self.bad_token(i, "bracket")
            self.bad_token(i, "malformed-list")

    def arguments(self, i, e):
        pos = e.pos
        npos = len(pos)

        def closure(states):
            out = set(states)
            work = list(states)
            while work:
                s = work.pop()
                if s < npos and pos[s].optional and s + 1 not in out:
                    out.add(s + 1)
                    work.append(s + 1)
            return out

        states = closure({0})
        started = False
        filled = set()
        while True:
            k = self.kind(i)
            if k == "tag":
                tag = self.t[i].text.lower()
                if self.t[i].text != tag:
                    self.features.add("uppercase-tag")
                # positional tag choice (size :over/:under)
                nxt = {s + 1 for s in states if s < npos and "tag" in pos[s].kinds
                       and tag in pos[s].choices}
                if nxt:
                    states = closure(nxt)
                    started = True
                    i += 1
                    continue
                slot = None
                for s in e.slots:
                    if tag in s.tags:
                        slot = s
                        break
                if slot is None:
                    if tag in e.unspec_tags:
                        self.note(i, "partially-supported-tag")
                        i += 1
                        continue
                    if any("tag" in p.kinds for p in pos):
                        raise Stop(i, "bad-tag-value")
                    raise Stop(i, "unknown-tag")
                if started:
                    raise Stop(i, "tag-after-positional")
                self.need_ext(i, slot.tags[tag] or slot.ext, ("tag", e.name.encode(), tag))
                self.features.add("tag")
                if slot.name in filled:
                    self.note(i, "repeated-tag")
                filled.add(slot.name)
                if e.name == "vacation" and {"days", "seconds"} <= filled:
                    self.note(i, ":days with :seconds")
                i += 1
                if slot.param and (slot.valid_for is None or tag in slot.valid_for):
                    i = self.tagparam(i, slot)
                continue
            if k in ("str", "mls"):
                kind = "str"
                nxti = i + 1
                if k == "mls":
                    self.features.add("multiline")
            elif k == "[":
                kind = "list"
                nxti = None
            elif k == "num":
                kind = "num"
                nxti = i + 1
            else:
                break
            nxt = {s + 1 for s in states if s < npos and kind in pos[s].kinds}
            if not nxt:
                if not any(s < npos for s in states) or all(s >= npos for s in states):
                    raise Stop(i, "surplus")
                raise Stop(i, "ill-typed")
            if nxti is None:
                nxti = self.stringlist(i)
            states = closure(nxt)
            started = True
            i = nxti
        if npos not in states:
            # required arguments are missing
            if self.kind(i) is None:
                raise Stop(self.n, "eof-incomplete")
            if self.kind(i) == "junk":
                raise Stop(i, "lexical")
            if self.strict:
                raise Stop(i, "missing-argument")
            self.note(i, "omitted-args")
        return i

    def tagparam(self, i, slot):
        k = self.kind(i)
        if k is None:
            raise Stop(self.n, "eof-incomplete")
        if k in ("str", "mls"):
            if "str" not in slot.param:
                raise Stop(i, "bad-tag-value")
            if slot.values is not None:
                raw = self.t[i].text
                if k == "mls":
                    self.note(i, "multi-line tag parameter value")
                elif raw not in slot.values:
                    if raw.lower() in [v.lower() for v in slot.values]:
                        self.note(i, "parameter-value-case")
                    else:
                        raise Stop(i, "bad-tag-value")
            if k == "mls":
                self.features.add("multiline")
            self.features.add("tagparam")
            return i + 1
        if k == "[":
            if "list" not in slot.param:
                raise Stop(i, "bad-tag-value")
            self.features.add("tagparam")
            return self.stringlist(i)
        if k == "num":
            if "num" not in slot.param:
                raise Stop(i, "bad-tag-value")
            self.features.add("tagparam")
            return i + 1
        if k == "junk":
            raise Stop(i, "lexical")
        if k == "tag":
            raise Stop(i, "bad-tag-value")
        # parameter omitted and the command ends / continues with a test
        if self.strict:
            raise Stop(i, "missing-argument")
        self.note(i, "omitted-tag-parameter")
        return i


def analyze_tokens(toks, lex_unspec=(), table=None, strict=False, known_exts=None):
    a = _A(toks, table or TABLE, strict, known_exts or SUPPORTED_EXTENSIONS)
    r = Result()
    r.tokens = toks
    r.ntok = len(toks)
    r.lex_unspec = bool(lex_unspec)
    bad = None
    reason = None
    info = None
    try:
        a.script()
    except Stop as s:
        bad, reason, info = s.idx, s.reason, s.info
    # lexical unspec: attach to token index by offset
    unspec = list(a.unspec)
    for off, why in lex_unspec:
        idx = len(toks)
        for j, tk in enumerate(toks):
            if tk.off + tk.length > off:
                idx = j
                break
        unspec.append((idx, why))
    unspec.sort()
    r.unspec = unspec
    r.uses = a.uses
    r.requires = a.requires
    r.maxdepth = a.maxdepth
    r.features = a.features
    r.bad = bad
    r.info = info
    if bad is None:
        if unspec:
            r.verdict, r.reason = UNSPEC, unspec[0][1]
        else:
            r.verdict, r.reason = VALID, None
    else:
        # an "omitted" note is attached to the token that ended the argument
        # list; if that very token is dead the script is invalid whatever
        # was omitted before it
        eff = [u for u in unspec if not (u[0] == bad and u[1].startswith("omitted"))]
        first_unspec = eff[0][0] if eff else None
        if first_unspec is not None and first_unspec <= bad:
            r.verdict, r.reason = UNSPEC, unspec[0][1] + "+" + reason
        else:
            r.verdict, r.reason = INVALID, reason
    return r


def analyze(data, table=None, strict=False, known_exts=None):
    lx = lex(data)
    r = analyze_tokens(lx.tokens, lx.unspec, table=table, strict=strict, known_exts=known_exts)
    return r


def viable(data, table=None):
    """True when the token sequence of data can still be completed to a valid
    (or unspecified) script: no dead token seen."""
    r = analyze(data, table=table)
    return r.bad is None or r.bad >= r.ntok
