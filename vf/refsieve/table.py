"""Frozen command table of the supported Sieve language.

Transcribed from RFC 5228 (base), RFC 3894 (copy), RFC 5173 (body),
RFC 5230/6131 (vacation, vacation-seconds), RFC 5231 (relational),
RFC 5232 (imap4flags), draft-murchison-sieve-regex (regex), RFC 5260 (date,
partially), RFC 5490 (mailbox :create), RFC 5229 (`set` without modifiers),
as listed in sievelib's README.  NOT derived from sievelib.commands.

Entry fields
  role     'command' (control or action: command position) / 'test'
  ext      extension that must be required before use, or None
  slots    optional tag slots: list of Slot
  pos      positional arguments in order: list of Pos
  test     None / 'one' / 'list'
  block    True when the command takes a block instead of ';'
  follow   names of which one must immediately precede (elsif/else)
  unspec_tags  RFC tags of partially supported extensions: no verdict claimed
"""

SUPPORTED_EXTENSIONS = (
    "fileinto",
    "reject",
    "envelope",
    "body",
    "vacation",
    "vacation-seconds",
    "copy",
    "mailbox",
    "imap4flags",
    "relational",
    "regex",
    "date",
    "variables",
)


class Slot:
    def __init__(self, name, tags, param=None, values=None, valid_for=None, ext=None):
        self.name = name
        # tag (lower case bytes) -> extension or None
        self.tags = dict(tags)
        # param: None or tuple of accepted kinds among 'str', 'list', 'num'
        self.param = param
        # allowed raw token values (bytes, with quotes) or None
        self.values = values
        # tags of this slot that take the parameter (None = all)
        self.valid_for = valid_for
        self.ext = ext


class Pos:
    def __init__(self, name, kinds, optional=False, choices=None):
        self.name = name
        # accepted kinds: subset of {'str','list','num','tag'}
        self.kinds = kinds
        self.optional = optional
        self.choices = choices  # for kind 'tag'


class Entry:
    def __init__(self, name, role, ext=None, slots=(), pos=(), test=None, block=False,
                 follow=None, unspec_tags=()):
        self.name = name
        self.role = role
        self.ext = ext
        self.slots = list(slots)
        self.pos = list(pos)
        self.test = test
        self.block = block
        self.follow = follow
        self.unspec_tags = frozenset(unspec_tags)


def t(*names):
    return {n.encode(): None for n in names}


STRING = ("str",)
STRLIST = ("str", "list")
NUMBER = ("num",)


def comparator():
    return Slot("comparator", t(":comparator"), param=STRING,
                values=(b'"i;octet"', b'"i;ascii-casemap"'))


def match_type():
    tags = t(":is", ":contains", ":matches")
    tags[b":count"] = "relational"
    tags[b":value"] = "relational"
    tags[b":regex"] = "regex"
    return Slot("match-type", tags, param=STRING,
                values=(b'"gt"', b'"ge"', b'"lt"', b'"le"', b'"eq"', b'"ne"'),
                valid_for=(b":count", b":value"))


def address_part():
    return Slot("address-part", t(":localpart", ":domain", ":all"))


def flags_slot():
    return Slot("flags", t(":flags"), param=STRLIST, ext="imap4flags")


def copy_slot():
    return Slot("copy", t(":copy"), ext="copy")


def build_table():
    E = Entry
    tab = {}

    def add(e):
        tab[e.name.encode()] = e

    add(E("require", "command", pos=[Pos("capabilities", STRLIST)]))
    add(E("if", "command", test="one", block=True))
    add(E("elsif", "command", test="one", block=True, follow=(b"if", b"elsif")))
    add(E("else", "command", block=True, follow=(b"if", b"elsif")))
    add(E("stop", "command"))
    add(E("keep", "command", slots=[flags_slot()]))
    add(E("discard", "command"))
    add(E("fileinto", "command", ext="fileinto",
          slots=[copy_slot(), Slot("create", t(":create"), ext="mailbox"), flags_slot()],
          pos=[Pos("mailbox", STRING)]))
    add(E("redirect", "command", slots=[copy_slot()], pos=[Pos("address", STRING)]))
    add(E("reject", "command", ext="reject", pos=[Pos("text", STRING)]))
    for n in ("setflag", "addflag", "removeflag"):
        add(E(n, "command", ext="imap4flags",
              pos=[Pos("variable-name", STRING, optional=True), Pos("list-of-flags", STRLIST)]))
    add(E("vacation", "command", ext="vacation",
          slots=[Slot("subject", t(":subject"), param=STRING),
                 Slot("days", t(":days"), param=NUMBER),
                 Slot("seconds", {b":seconds": "vacation-seconds"}, param=NUMBER),
                 Slot("from", t(":from"), param=STRING),
                 Slot("addresses", t(":addresses"), param=STRLIST),
                 Slot("handle", t(":handle"), param=STRING),
                 Slot("mime", t(":mime"))],
          pos=[Pos("reason", STRING)]))
    add(E("set", "command", ext="variables",
          pos=[Pos("name", STRING), Pos("value", STRING)],
          unspec_tags=(b":lower", b":upper", b":lowerfirst", b":upperfirst",
                       b":quotewildcard", b":length")))
    # tests
    add(E("address", "test", slots=[comparator(), address_part(), match_type()],
          pos=[Pos("header-list", STRLIST), Pos("key-list", STRLIST)]))
    add(E("envelope", "test", ext="envelope",
          slots=[comparator(), address_part(), match_type()],
          pos=[Pos("envelope-part", STRLIST), Pos("key-list", STRLIST)]))
    add(E("header", "test", slots=[comparator(), match_type()],
          pos=[Pos("header-names", STRLIST), Pos("key-list", STRLIST)]))
    add(E("exists", "test", pos=[Pos("header-names", STRLIST)]))
    add(E("size", "test",
          pos=[Pos("comparator", ("tag",), choices=(b":over", b":under")), Pos("limit", NUMBER)]))
    add(E("body", "test", ext="body",
          slots=[comparator(), match_type(),
                 Slot("body-transform", t(":raw", ":text", ":content"), param=STRLIST,
                      valid_for=(b":content",))],
          pos=[Pos("key-list", STRLIST)]))
    add(E("not", "test", test="one"))
    add(E("anyof", "test", test="list"))
    add(E("allof", "test", test="list"))
    add(E("true", "test"))
    add(E("false", "test"))
    add(E("hasflag", "test", ext="imap4flags", slots=[comparator(), match_type()],
          pos=[Pos("variable-list", STRLIST, optional=True), Pos("list-of-flags", STRLIST)]))
    add(E("date", "test", ext="date",
          slots=[Slot("zone", t(":zone", ":originalzone"), param=STRING, valid_for=(b":zone",)),
                 comparator(), match_type()],
          pos=[Pos("header-name", STRING), Pos("date-part", STRING), Pos("key-list", STRLIST)],
          unspec_tags=(b":index", b":last")))
    add(E("currentdate", "test", ext="date",
          slots=[Slot("zone", t(":zone"), param=STRING), comparator(), match_type()],
          pos=[Pos("date-part", STRING), Pos("key-list", STRLIST)]))
    return tab


TABLE = build_table()


def construct_extension_map(table=None):
    """Flat view used by C07: ('cmd', name) / ('tag', cmdname, tag) -> extension."""
    table = table or TABLE
    out = {}
    for name, e in table.items():
        if e.ext:
            out[("cmd", name)] = e.ext
        for s in e.slots:
            for tag, ext in s.tags.items():
                x = ext or s.ext
                if x:
                    out[("tag", name, tag)] = x
    return out
