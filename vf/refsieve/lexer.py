"""Reference lexer for the supported Sieve language (RFC 5228 section 8.1).

Hand written scanner, shares nothing with sievelib.  Works on bytes.  Every
token carries byte offset, 1-based line, 1-based byte column and byte length.

Token kinds:
  '[' ']' '(' ')' '{' '}' ';' ','   punctuation
  'ident'   identifier
  'tag'     :identifier
  'num'     number with optional K/M/G quantifier
  'str'     quoted string            (text = raw token including the quotes)
  'mls'     multi-line "text:" block (text = raw token from "text:" to the final ".")
  'junk'    anything that is no token (runs to next white space / end)
Comments are dropped (they are kept in ``comments`` for the callers that want
them).  ``unspec`` lists (offset, why) for constructs whose lexical treatment
neither RFC 5228 nor the sievelib documentation pins down.
"""

PUNCT = b"[](){};,"
_ALPHA = frozenset(b"abcdefghijklmnopqrstuvwxyzABCDEFGHIJKLMNOPQRSTUVWXYZ_")
_ALNUM = _ALPHA | frozenset(b"0123456789")
_DIGIT = frozenset(b"0123456789")
_WS = frozenset(b" \t\r\n")
_ODDWS = frozenset(b"\x0b\x0c")


class Tok:
    __slots__ = ("kind", "text", "off", "line", "col", "length")

    def __init__(self, kind, text, off, line, col):
        self.kind = kind
        self.text = text
        self.off = off
        self.line = line
        self.col = col
        self.length = len(text)

    def __repr__(self):
        return "Tok(%s,%r@%d)" % (self.kind, self.text, self.off)


class LexResult:
    __slots__ = ("tokens", "comments", "unspec")

    def __init__(self):
        self.tokens = []
        self.comments = []  # (kind, text, off) kind in '#', '/*'
        self.unspec = []  # (off, why)


def lex(data):
    if isinstance(data, str):
        data = data.encode("utf-8")
    res = LexResult()
    n = len(data)
    i = 0
    line = 1
    linestart = 0  # offset of first byte of current line

    def add(kind, start, end):
        # line/col of start: computed from running counters (start >= linestart
        # is guaranteed because tokens are emitted as soon as they are scanned)
        res.tokens.append(Tok(kind, data[start:end], start, add.line, start - add.linestart + 1))

    while i < n:
        c = data[i]
        if c in _WS or c in _ODDWS or c == 0:
            if c == 10:
                line += 1
                linestart = i + 1
            elif c == 13:
                if not (i + 1 < n and data[i + 1] == 10):
                    res.unspec.append((i, "lone CR"))
            elif c in _ODDWS:
                res.unspec.append((i, "FF/VT white space"))
            elif c == 0:
                # NUL is no white space and no token: junk
                j = i
                while j < n and data[j] not in _WS:
                    j += 1
                add.line, add.linestart = line, linestart
                add("junk", i, j)
                res.unspec.append((i, "NUL"))
                i = j
                continue
            i += 1
            continue
        add.line, add.linestart = line, linestart
        if c in PUNCT:
            add(chr(c), i, i + 1)
            i += 1
            continue
        if c == 35:  # '#'
            j = data.find(b"\n", i)
            if j < 0:
                j = n
            end = j
            if end > i and data[end - 1] == 13:
                end -= 1
            if b"\r" in data[i:end]:
                res.unspec.append((i, "CR inside hash comment"))
            res.comments.append(("#", data[i:end], i))
            i = j  # newline handled by main loop
            continue
        if c == 47 and i + 1 < n and data[i + 1] == 42:  # '/*'
            j = data.find(b"*/", i + 2)
            if j < 0:
                # unterminated comment: no token
                k = i
                while k < n and data[k] not in _WS:
                    k += 1
                add("junk", i, k)
                i = k
                continue
            seg = data[i : j + 2]
            res.comments.append(("/*", seg, i))
            # keep line accounting right
            nl = seg.count(b"\n")
            if nl:
                line += nl
                linestart = i + seg.rfind(b"\n") + 1
            i = j + 2
            continue
        if c == 34:  # '"'
            j = i + 1
            ok = False
            while j < n:
                d = data[j]
                if d == 92:  # backslash
                    if j + 1 >= n:
                        break
                    e = data[j + 1]
                    if e == 10 or e == 13:
                        # backslash followed by a line break: not a valid
                        # quoted-other (RFC 5228 8.1); treated as unspecified
                        res.unspec.append((j, "backslash-newline in string"))
                    if e == 0:
                        res.unspec.append((j, "NUL in string"))
                    j += 2
                    continue
                if d == 34:
                    ok = True
                    break
                if d == 0:
                    res.unspec.append((j, "NUL in string"))
                j += 1
            if not ok:
                # unterminated string: junk up to next white space
                k = i
                while k < n and data[k] not in _WS:
                    k += 1
                add("junk", i, k)
                i = k
                continue
            add("str", i, j + 1)
            seg = data[i : j + 1]
            nl = seg.count(b"\n")
            if nl:
                line += nl
                linestart = i + seg.rfind(b"\n") + 1
            i = j + 1
            continue
        if c in _ALPHA:
            j = i + 1
            while j < n and data[j] in _ALNUM:
                j += 1
            word = data[i:j]
            if word.lower() == b"text" and j < n and data[j] == 58:  # "text:"
                end = _multiline(data, j + 1, res, word)
                if end is not None:
                    add("mls", i, end)
                    seg = data[i:end]
                    nl = seg.count(b"\n")
                    if nl:
                        line += nl
                        linestart = i + seg.rfind(b"\n") + 1
                    i = end
                    continue
                res.unspec.append((i, "text: without well-formed multi-line block"))
            add("ident", i, j)
            i = j
            continue
        if c == 58:  # ':'
            j = i + 1
            if j < n and data[j] in _ALPHA:
                j += 1
                while j < n and data[j] in _ALNUM:
                    j += 1
                add("tag", i, j)
                i = j
                continue
        if c in _DIGIT:
            j = i + 1
            while j < n and data[j] in _DIGIT:
                j += 1
            if j < n and data[j] in b"KMGkmg":
                j += 1
            add("num", i, j)
            i = j
            continue
        # junk
        j = i
        while j < n and data[j] not in _WS:
            j += 1
        add("junk", i, j)
        i = j
    return res


def _multiline(data, j, res, word):
    """data[j:] follows "text:".  Returns the offset just after the closing
    "." (exclusive of the line break that follows it) or None."""
    n = len(data)
    start = j
    while j < n and data[j] in b" \t":
        j += 1
    if j < n and data[j] == 35:
        k = data.find(b"\n", j)
        if k < 0:
            return None
        c0 = j
        j = k
        if data[j - 1] == 13:
            j -= 1
        if b"\r" in data[c0:j]:
            # same as for a hash comment elsewhere: whether a bare CR ends it is not pinned down
            res.unspec.append((c0, "CR inside hash comment"))
    # now need line break
    if j < n and data[j] == 10:
        j += 1
    elif j + 1 < n and data[j] == 13 and data[j + 1] == 10:
        j += 2
    else:
        return None
    if word != b"text":
        res.unspec.append((start, "TEXT: not lower case"))
    # lines until a line that is exactly "."
    while j <= n:
        k = data.find(b"\n", j)
        if k < 0:
            lineend = n
            nxt = n + 1
        else:
            lineend = k
            nxt = k + 1
        ln = data[j:lineend]
        if ln.endswith(b"\r"):
            ln = ln[:-1]
        if ln == b".":
            return j + 1
        if b"\r" in ln:
            res.unspec.append((j, "lone CR in multi-line"))
        if b"\x00" in ln:
            res.unspec.append((j, "NUL in multi-line"))
        if k < 0:
            return None
        j = nxt
    return None


def string_value(tok):
    """Decoded content (bytes) of a 'str' or 'mls' token (RFC 5228 2.4.2)."""
    t = tok.text if isinstance(tok, Tok) else tok
    if t[:1] == b'"':
        body = t[1:-1]
        out = bytearray()
        i = 0
        while i < len(body):
            if body[i] == 92 and i + 1 < len(body):
                out.append(body[i + 1])
                i += 2
            else:
                out.append(body[i])
                i += 1
        return bytes(out)
    # multi-line: drop header line and final dot line, undo dot stuffing
    k = t.find(b"\n")
    lines = t[k + 1 :].split(b"\n")
    lines = lines[:-1]  # the "." line
    out = []
    for ln in lines:
        if ln.endswith(b"\r"):
            ln = ln[:-1]
        if ln.startswith(b".."):
            ln = ln[1:]
        out.append(ln)
    return b"\r\n".join(out) + (b"\r\n" if out else b"")
