"""RFC 5228 section 8.2 generic grammar, no command knowledge.

   commands   = *command
   command    = identifier arguments (";" / block)
   arguments  = *argument [ test / test-list ]
   argument   = string-list / number / tag
   test       = identifier arguments
   test-list  = "(" test *("," test) ")"
   block      = "{" commands "}"
   string-list = "[" string *("," string) "]" / string

Produces nodes (name, args, tests, children):
  name      lower-cased identifier (bytes)
  args      tuple of argument values: ('tag', lower-cased text) /
            ('num', text) / ('str', raw text) / ('list', (raw, raw, ...))
  tests     tuple of nodes
  children  tuple of nodes (block), or None when the command ended with ";"
            (tests never have children: always None)
``parse_generic(tokens)`` returns (nodes, consumed, error) where consumed is
the number of tokens belonging to the longest well-formed command prefix.
"""


class GenericError(Exception):
    def __init__(self, idx, why):
        Exception.__init__(self, "%s at token %d" % (why, idx))
        self.idx = idx
        self.why = why


def _arguments(toks, i):
    args = []
    n = len(toks)
    while i < n:
        k = toks[i].kind
        if k == "tag":
            args.append(("tag", toks[i].text.lower()))
            i += 1
        elif k == "num":
            args.append(("num", toks[i].text))
            i += 1
        elif k in ("str", "mls"):
            args.append(("str", toks[i].text))
            i += 1
        elif k == "[":
            items = []
            i += 1
            while True:
                if i >= n or toks[i].kind not in ("str", "mls"):
                    raise GenericError(i, "string expected in list")
                items.append(toks[i].text)
                i += 1
                if i < n and toks[i].kind == ",":
                    i += 1
                    continue
                if i < n and toks[i].kind == "]":
                    i += 1
                    break
                raise GenericError(i, "',' or ']' expected")
            args.append(("list", tuple(items)))
        else:
            break
    tests = []
    if i < n and toks[i].kind == "ident":
        t, i = _test(toks, i)
        tests.append(t)
    elif i < n and toks[i].kind == "(":
        i += 1
        while True:
            if i >= n or toks[i].kind != "ident":
                raise GenericError(i, "test expected")
            t, i = _test(toks, i)
            tests.append(t)
            if i < n and toks[i].kind == ",":
                i += 1
                continue
            if i < n and toks[i].kind == ")":
                i += 1
                break
            raise GenericError(i, "',' or ')' expected")
    return tuple(args), tuple(tests), i


def _test(toks, i):
    name = toks[i].text.lower()
    args, tests, i = _arguments(toks, i + 1)
    return (name, args, tests, None), i


def _command(toks, i):
    n = len(toks)
    if toks[i].kind != "ident":
        raise GenericError(i, "identifier expected")
    name = toks[i].text.lower()
    args, tests, i = _arguments(toks, i + 1)
    if i < n and toks[i].kind == ";":
        return (name, args, tests, None), i + 1
    if i < n and toks[i].kind == "{":
        i += 1
        children = []
        while True:
            if i >= n:
                raise GenericError(i, "'}' expected")
            if toks[i].kind == "}":
                i += 1
                break
            c, i = _command(toks, i)
            children.append(c)
        return (name, args, tests, tuple(children)), i
    raise GenericError(i, "';' or block expected")


def parse_generic(toks):
    nodes = []
    i = 0
    n = len(toks)
    err = None
    while i < n:
        try:
            c, j = _command(toks, i)
        except GenericError as e:
            err = e
            break
        nodes.append(c)
        i = j
    return nodes, i, err
