"""Entry point: python -m vf.run <Cnn> [--tier quick|thorough] [--replay file]"""

import argparse
import importlib
import json
import os
import sys
import time
import traceback


def main(argv=None):
    ap = argparse.ArgumentParser()
    ap.add_argument("prop")
    ap.add_argument("--tier", default=None)
    ap.add_argument("--replay", default=None)
    a = ap.parse_args(argv)
    tier = a.tier or os.environ.get("VERIF_TIER") or "quick"
    if tier not in ("quick", "thorough"):
        tier = "quick"
    try:
        seed = int(os.environ.get("VERIF_SEED", "0") or 0)
    except ValueError:
        seed = 0
    prop = a.prop.upper()
    t0 = time.time()
    try:
        from vf import core
        mod = importlib.import_module("vf.props.%s" % prop.lower())
        if a.replay:
            with open(a.replay) as fp:
                doc = json.load(fp)
            case = core.unjson(doc["case"])
            fails = mod.replay(case)
            known = core.load_known(prop)
            rc = 0
            for bucket, detail in fails:
                k = [f for f in known if core.finding_matches(f, bucket)]
                if k:
                    print("KNOWN-FINDING: property=%s %s [%s]" % (prop, k[0]["what"], k[0]["id"]))
                else:
                    print("VIOLATION property=%s replay=%s" % (prop, a.replay))
                    print("  bucket: %s\n  detail: %s" % (bucket, json.dumps(core.jsonable(detail))[:1000]))
                    rc = 1
            if not fails:
                print("%s replay: property holds on this case" % prop)
            return rc
        return mod.main(tier, seed, t0)
    except SystemExit:
        raise
    except BaseException as e:  # noqa: BLE001
        sys.stdout.flush()
        sys.stderr.write("HARNESS-ERROR %s: %s\n" % (prop, e))
        traceback.print_exc()
        return 2


if __name__ == "__main__":
    sys.exit(main())
