"""Pristine interpreter image (DESIGN 2.6).

A server process is forked while sievelib is imported but has not been used.
Each query is executed in a grandchild forked from that server, so every
answer comes from the state 'just imported'."""

import os
import pickle
import struct
import traceback


def _read_exact(fd, n):
    buf = b""
    while len(buf) < n:
        chunk = os.read(fd, n - len(buf))
        if not chunk:
            raise EOFError
        buf += chunk
    return buf


def _send(fd, obj):
    data = pickle.dumps(obj)
    os.write(fd, struct.pack("!I", len(data)))
    off = 0
    while off < len(data):
        off += os.write(fd, data[off : off + 65536])


def _recv(fd):
    n = struct.unpack("!I", _read_exact(fd, 4))[0]
    return pickle.loads(_read_exact(fd, n))


class Pristine:
    def __init__(self, execute):
        """execute(request) -> observation; must be a picklable-result function.
        Call this constructor BEFORE the current process uses sievelib."""
        self.req_r, self.req_w = os.pipe()
        self.res_r, self.res_w = os.pipe()
        self.pid = os.fork()
        if self.pid == 0:
            os.close(self.req_w)
            os.close(self.res_r)
            try:
                while True:
                    try:
                        req = _recv(self.req_r)
                    except EOFError:
                        break
                    child = os.fork()
                    if child == 0:
                        try:
                            res = ("ok", execute(req))
                        except BaseException:  # noqa: BLE001
                            res = ("crash", traceback.format_exc())
                        try:
                            _send(self.res_w, res)
                        finally:
                            os._exit(0)
                    os.waitpid(child, 0)
            finally:
                os._exit(0)
        os.close(self.req_r)
        os.close(self.res_w)

    def query(self, req):
        _send(self.req_w, req)
        status, val = _recv(self.res_r)
        if status != "ok":
            raise RuntimeError("pristine child crashed:\n" + val)
        return val

    def close(self):
        try:
            os.close(self.req_w)
        except OSError:
            pass
        try:
            os.waitpid(self.pid, 0)
        except OSError:
            pass
        try:
            os.close(self.res_r)
        except OSError:
            pass
