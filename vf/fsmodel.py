"""Interpreter of FiltersSet edit histories (JSON-able operation lists) and the
reference ordered-unique-list model (DESIGN R4, C06/C11/C12/C13)."""

import io

from . import impl  # noqa: F401  (puts the repository on sys.path)
from sievelib import factory as sl_factory

TMPNAME = "\x00vf-temporary\x00"


def new_set(prefixes=None):
    if prefixes:
        return sl_factory.FiltersSet("vf", prefixes[0], prefixes[1])
    return sl_factory.FiltersSet("vf")


def build_content(fs, defn):
    """A filter Command built through the public API of the same set (so the
    set's requires are kept up to date): add under a temporary name, fetch,
    remove."""
    fs.addfilter(TMPNAME, defn["conditions"], defn["actions"], defn["matchtype"])
    c = fs.getfilter(TMPNAME)
    fs.removefilter(TMPNAME)
    return c


def apply_op(fs, op, defs):
    """Execute one operation. Returns ('ret', value) or ('exc', type name)."""
    k = op["op"]
    try:
        if k == "add":
            d = defs[op["def"]]
            return ("ret", fs.addfilter(op["name"], d["conditions"], d["actions"], d["matchtype"]))
        if k == "update":
            d = defs[op["def"]]
            return ("ret", fs.updatefilter(op["name"], op["newname"], d["conditions"], d["actions"], d["matchtype"]))
        if k == "replace" and op.get("from") is not None and fs.getfilter(op["from"]) is not None:
            # the content object of another filter of the same set, handed over as it is
            # (what the repository's test_replacefilter does): the two filters then share it
            return ("ret", fs.replacefilter(op["name"], fs.getfilter(op["from"]), op.get("newname"), op.get("description")))
        if k == "replace":
            d = defs[op["def"]]
            if fs.getfilter(op["name"]) is None:
                # unknown name: nothing will be replaced; build the content
                # without touching the set under test
                content = build_content(new_set(), d)
            else:
                content = build_content(fs, d)
            return ("ret", fs.replacefilter(op["name"], content, op.get("newname"), op.get("description")))
        if k == "remove":
            return ("ret", fs.removefilter(op["name"]))
        if k == "enable":
            return ("ret", fs.enablefilter(op["name"]))
        if k == "disable":
            return ("ret", fs.disablefilter(op["name"]))
        if k == "move":
            return ("ret", fs.movefilter(op["name"], op["dir"]))
        raise ValueError(k)
    except sl_factory.FilterAlreadyExists:
        return ("exc", "FilterAlreadyExists")


class Model:
    """Ordered list of uniquely named filters."""

    def __init__(self):
        self.items = []  # dicts: name, def (index), enabled, description

    def find(self, name):
        for i, it in enumerate(self.items):
            if it["name"] == name:
                return i
        return -1

    def apply(self, op):
        """Returns the expected observation, or None where the property does
        not fix the return value."""
        k = op["op"]
        name = op["name"]
        if isinstance(name, bytes):
            name = name.decode("utf-8")
        if isinstance(op.get("newname"), bytes):
            op = dict(op, newname=op["newname"].decode("utf-8"))
        i = self.find(name)
        if k == "add":
            if i >= 0:
                return ("exc", "FilterAlreadyExists")
            self.items.append({"name": name, "def": op["def"], "enabled": True, "description": None})
            return ("ret", None)
        if k in ("update", "replace"):
            if i < 0:
                return ("ret", False)
            new = op.get("newname")
            if new is None:
                new = name
            if new != name and self.find(new) >= 0:
                return ("exc", "FilterAlreadyExists")
            it = self.items[i]
            it["name"] = new
            src = self.find(op["from"]) if (k == "replace" and op.get("from") is not None) else -1
            it["def"] = self.items[src]["def"] if src >= 0 else op["def"]
            if k == "replace" and op.get("description") is not None:
                it["description"] = op["description"]
            return ("ret", True)
        if k == "remove":
            if i < 0:
                return ("ret", False)
            del self.items[i]
            return ("ret", True)
        if k == "enable":
            if i < 0:
                return ("ret", False)
            was = self.items[i]["enabled"]
            self.items[i]["enabled"] = True
            return ("ret", True) if not was else None  # enabling an enabled filter: not fixed
        if k == "disable":
            if i < 0:
                return ("ret", False)
            was = self.items[i]["enabled"]
            self.items[i]["enabled"] = False
            return ("ret", True) if was else None  # disabling twice: return value not fixed
        if k == "move":
            if i < 0:
                return ("ret", False)
            j = i - 1 if op["dir"] == "up" else i + 1
            if j < 0 or j >= len(self.items):
                return ("ret", False)
            it = self.items.pop(i)
            self.items.insert(j, it)
            return ("ret", True)
        raise ValueError(k)


def render_command(cmd):
    out = io.StringIO()
    cmd.tosieve(target=out)
    return out.getvalue()


def render_def(defn):
    """Text of a definition rendered alone in a fresh set (filter content only)."""
    fs = new_set()
    fs.addfilter("x", defn["conditions"], defn["actions"], defn["matchtype"])
    return render_command(fs.getfilter("x"))
