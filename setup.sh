#!/bin/sh
# MANIFEST.setup_cmd: offline; makes sure hypothesis is importable by /venv/bin/python,
# installs atheris for the thorough C02 campaign into /verif/.deps, runs oracle self-tests.
cd "$(dirname "$0")" || exit 2
export PIP_NO_INDEX=1
if ! /venv/bin/python -c "import hypothesis" 2>/dev/null; then
  /venv/bin/pip install --no-index --find-links /opt/veriftools/wheels hypothesis || exit 2
fi
if [ ! -d .deps/atheris ]; then
  /venv/bin/pip install -q --no-index --find-links /opt/veriftools/wheels --target .deps atheris >/dev/null 2>&1 || echo "setup: atheris not installed (thorough C02 fuzz campaign will be skipped)"
fi
mkdir -p evidence replays .work
PYTHONPATH="$PWD:/repo" PYTHONDONTWRITEBYTECODE=1 /venv/bin/python -m vf.selftest || exit 2
echo "setup ok"
